#!/bin/sh
# usage: tools/solver_agreement.sh [ids...]
# Re-decides every quick-tier obligation of the given properties with z3 5.1.0 (z3-new) and cvc5 1.0 instead of
# z3 4.8.12 and tabulates proved / violated / inconclusive per solver. Exploration is solver-driven (feasibility
# queries), so equal path and obligation counts mean the three solvers agreed on every branch as well.
# This is evidence about the encoding (run once per encoding change), not a registered check.
cd /verif || exit 2
ids=${*:-C01 C02 C03 C04 C05 C06 C07 C08 C09 C10 C11 C12 C13 C14 C15 C16 C17 C18 C19 C20}
mkdir -p work/logs
out=work/solver_agreement.txt
: > $out
for id in $ids; do
  for s in z3 z3-new cvc5; do
    log=work/logs/agree_${id}_$s.log
    timeout 3600 bin/symgo run -prop $id -tier quick -solver $s -j 16 > $log 2>&1
    awk -v id=$id -v s=$s '/^VH_/ { for (i=2;i<=NF;i++) { split($i,kv,"="); if (kv[1]=="paths") p+=kv[2]; if (kv[1]=="proved") pr+=kv[2]; if (kv[1]=="violated") v+=kv[2]; if (kv[1]=="inconclusive") inc+=kv[2]; if (kv[1]=="wall") {sub("s","",kv[2]); w+=kv[2]} } n++ }
      END { printf "%s %-6s harnesses=%d paths=%d proved=%d violated=%d inconclusive=%d cpu_s=%.0f\n", id, s, n, p, pr, v, inc, w }' $log | tee -a $out
  done
done
