#!/bin/sh
# usage: tools/run_all.sh <quick|thorough> [ids...]  -- runs the registered checks one after another, logs under work/logs
cd /verif || exit 2
tier=${1:-quick}; shift
ids=${*:-C01 C02 C03 C04 C05 C06 C07 C08 C09 C10 C11 C12 C13 C14 C15 C16 C17 C18 C19 C20}
mkdir -p work/logs
for id in $ids; do
  ./run_check.sh $id $tier > work/logs/$id.$tier.log 2>&1
  echo "$id exit=$? $(grep '^SUMMARY' work/logs/$id.$tier.log | cut -c1-230)"
done
