#!/usr/bin/env python3
"""Copies a confirmed seeded change from /tmp/mut_<id>.* into /verif/seeded/<id>/ with meta.json."""
import json, os, shutil, subprocess, sys, glob
id = sys.argv[1]
pre = os.environ.get("SEED_PREFIX","mut")
suffix = os.environ.get("SEED_SUFFIX","")
caught_by = sys.argv[2] if len(sys.argv) > 2 else ""
notes = sys.argv[3] if len(sys.argv) > 3 else ""
d = f'/verif/seeded/{id}{suffix}'
os.makedirs(d, exist_ok=True)
shutil.copy(f'/tmp/{pre}_{id}.patch.diff', f'{d}/patch.diff')
demo = subprocess.check_output(f"cd /tmp/{pre}_{id} && find . -name zz_demo_test.go | head -1", shell=True, text=True).strip()
shutil.copy(f'/tmp/{pre}_{id}/{demo}', f'{d}/demo_test.go')
desc = open(f'/tmp/{pre}_{id}.meta.txt').read() if os.path.exists(f'/tmp/{pre}_{id}.meta.txt') else ''
meta = {
  "property": id,
  "origin": "written by an independent sub-agent that saw only the property text and its own scratch worktree of /repo",
  "demo_location_in_repo": demo.lstrip('./'),
  "needs_to_manifest": desc.strip(),
  "confirmed": "tools/confirm_seeded.sh %s: patch applies to /repo HEAD, go build + full existing suite pass with it, TestSeededDemo fails with it and passes without it (fresh scratch worktree, removed afterwards)" % id,
  "checks_run": "tools/try_seeded.sh /verif/seeded/%s%s/patch.diff quick %s (applies to /repo, runs the check, restores /repo)" % (id, suffix, id),
  "caught_by": caught_by,
  "notes": notes,
}
json.dump(meta, open(f'{d}/meta.json', 'w'), indent=1)
print("recorded", d)
