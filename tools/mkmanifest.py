#!/usr/bin/env python3
"""Regenerates /verif/MANIFEST.json from the table below (kept in one place so it stays valid)."""
import json, os
V = '/verif'
props = [json.loads(l) for l in open(V + '/properties.jsonl')]
TECH = "solver-based checking: symbolic execution of the real Go SSA (symgo) -> SMT-LIB2 bit-vector queries decided by z3 4.8.12 (cvc5 1.0 / z3 5.1.0 only for queries it leaves undecided); counterexample models replayed natively against the real build"
NOTE_COMMON = ("Trusted: go/ssa lowering (x/tools v0.29.0), the symgo executor's encoding of Go semantics and its intrinsics "
               "(bytes.Buffer, encoding/binary, fmt, errors; listed in DESIGN.md 2.6), z3 4.8.12 (fallback solvers cvc5 1.0 and z3 5.1.0 for queries it leaves undecided; count in the evidence). Bounds and what lies outside them are "
               "in the evidence file (coverage.bounds / coverage.outside_claim) and DESIGN.md. unknown/timeout/unsupported are reported "
               "as INCONCLUSIVE, never as success or violation. ")
claimed = {
 'C19': dict(cat='other', ref='5/C19 and 9',
   text="What the solver-based machinery decides is a sequential statement that implies the property: on every symbolic path of a representative set of library calls (decode, encode, ciphering, MAC, accessors, conversions, QoS, UE policy, allocator) every store is proved to hit only objects owned by the call (receiver / output argument) or allocated during it, never the input, a shared message or package-level state; readers of a shared mobile identity are run with nothing owned (any store to pre-existing memory counts, also one that is undone); plus a whole-library SSA scan (2165 functions) proving that package-level variables are only read outside init and that no goroutine/channel construct exists. Race freedom and sequential consistency for arbitrary interleavings follow by the disjoint-footprint argument, which is reasoning in DESIGN.md, not a solver result.",
   note="Level 'other': no schedule is explored; logrus, crypto/aes and fmt internals are trusted. A hidden global introduced in code no harness enters is caught by the SSA scan only."),
 'C18': dict(cat='model_checking', ref='5/C18',
   text="The three UE policy decoders run symbolically on every byte string up to 10 (13) octets (no panic, terminate). Command/complete/reject messages and nested lists built through the API with symbolic contents are encoded by the real code and decoded back; lengths are proved to be the ones computed from content and all fields equal. Length fields are set to arbitrary stale values before MarshalBinary; every nested type is also marshalled alone with contents of symbolic length up to its own 16-bit maximum, and sub-results with 6552..13106 results are parsed. SetPlmnDigit output for every MCC/MNC is proved equal to nasConvert.PlmnIDToNas of the same digits (TS 24.008 digit order), and the parsers are proved to read it back.",
   note="Shapes up to 2 sub-lists x 2 instructions x 2 parts x 3 content octets, plus the symbolic-length and large-count harnesses."),
 'C15': dict(cat='model_checking', ref='5/C15',
   text="Real QoS rule / flow description parsers executed on every byte string up to 8 (11) octets (no panic, terminates; every unknown parameter identifier and component type proved to be an error). Shape-directed symbolic lists (every operation, 0/1/2/15 filters, each of the 18 component kinds alone and all in one filter; every parameter kind) are serialised by the real code, proved byte-identical to an encoder written from TS 24.501 9.11.4.12/13, parsed back by the real code and proved field-wise equal; two and three rules in every order of full-filter / identifier-only operations; a marshal call after a failed one behaves as on a fresh start.",
   note="Interfaces are dispatched on their concrete type per path."),
 'C16': dict(cat='model_checking', ref='5/C16',
   text="Real PCO Marshal/UnMarshal executed symbolically: round trip of every list shape up to 3 (4) units with symbolic identifiers and contents, and of 1..2 units with contents of symbolic length 0..255, proved to reproduce the specified layout (0x80 first) and equal units; UnMarshal on every byte string up to 8 (10) octets proved panic-free, non-mutating and to return only octets of the input at their positions. PSIToBuf/PSIToBooleanArray proved mutually inverse for all 65536 values in one query each; error-cause interleaving for all list lengths 0..4.",
   note="Contents per unit <= 3 (6) octets."),
 'C17': dict(cat='model_checking', ref='5/C17',
   text="GPRSTimer2ToNas / GPRSTimer3ToNas on every duration of the property's ranges against decoders from TS 24.008 (never more than requested; exact when representable); ModelsToSessionAMBR through the real strconv code on every 1..5-digit value 0..65535 x 5 units x 2 directions; time-zone text of all 159 quarter-hour zones x DST 0/1/2 against getTimeZoneOffset and the text decoders; universal time round trip over every instant 2000-2099 with and without daylight saving in effect (abstract time.Time); network names of every length 0..16 (64) unpacked bit by bit per TS 23.038.",
   note="time.Time is an abstract record (single-rule zones with an offset and a DST flag, days 1..28)."),
 'C13': dict(cat='model_checking', ref='5/C13',
   text="Library encoders (SnssaiToNas, RejectedSnssaiToNas, RejectedNssaiToNas, TaiListToNas, PartialServiceAreaListToNas, LadnToNas) run symbolically on lists of concrete shape with every SST/SD/TAC/PLMN digit symbolic; their output is decoded field by field by assertions written from the TS 24.501 layouts and proved equal to the input lists. Library decoders (SnssaiToModels, RequestedNssaiToModels, LadnToModels) run on reference encodings of every mix of legal entry lengths and are proved to recover the lists exactly; illegal and truncated entry lengths are proved to be errors.",
   note="List sizes bounded (1..3 entries quick, up to 6 thorough)."),
 'C12': dict(cat='model_checking', ref='5/C12',
   text="Real nasConvert/nasType identity conversions (with the real encoding/hex, strconv, math/bits code) are executed on symbolic octets / digit strings and proved equal to references written from TS 24.501 9.11.3.4 / TS 24.008: PLMN both ways, all 2^24 AMF ids both ways and against the GUTI accessors, GUTI wire->text->wire and acceptance of exactly the well-formed texts over all strings of length 0..24, SUCI (IMSI/NAI) rendering and agreement of the MobileIdentity5GS getters, IMEI/IMEISV, 5G-S-TMSI; rendering is repeatable (a second call on the same element gives the same text).",
   note="String lengths are concrete case splits with symbolic characters; SUCI scheme output <= 4 (8) octets."),
 'C14': dict(cat='model_checking', ref='5/C14',
   text="Each helper that interprets UE-supplied IE contents is executed symbolically on every byte string (all octets symbolic) of every length 0..12 (24) - strings for the text-input variants; length-prefixed parsers also on long contents with a length octet at 63/64/127/128/254/255 - with the real encoding/hex, strconv and math/bits code; every index, slice and nil site is a solver query (a satisfiable one is replayed natively as a panic) and every loop must terminate within an unwinding limit (a loop still running is replayed natively under a deadline as a hang).",
   note="Decoder-enforced minimum lengths are deliberately not assumed. Seven genuine defects found this way were repaired in /repo (fix: commits listed in known_findings.json)."),
 'C06': dict(cat='model_checking', ref='5/C06',
   text="The real NEA1/NEA2/NEA3, NASEncrypt, snow3g and zuc code is executed symbolically with key, COUNT, bearer, direction and payload symbolic and proved equal to reference models transliterated from the SNOW 3G / UEA2, ZUC / EEA3 specifications and CTR mode: tables index-wise, leaf functions full width, one clock of each kind from an arbitrary state, initialisation, keystream prefixes, and the modes for every bit length 0..64 (256) / octet length 0..24 (40). Equalities are decided on canonical normal forms of the two symbolic results and by z3 where they differ; a second set of harnesses abstracts keystream words as uninterpreted functions so that mode-level deviations give short counterexamples.",
   note="AES is an uninterpreted function. Reference tables are golden copies validated natively. On a mutated tree a whole-cipher disequality may be beyond z3 within the timeout (reported INCONCLUSIVE); the one-step lemmas and abstracted harnesses are the ones expected to produce replayable counterexamples."),
 'C07': dict(cat='model_checking', ref='5/C07',
   text="Real NIA1/NIA2/NIA3 and NASMacCalculate executed symbolically (key, COUNT, bearer, direction, message symbolic) and proved equal to UIA2 (f9 with MUL64 proved full width), RFC 4493 CMAC run over the same uninterpreted AES (the real aead/cmac code is executed), and EIA3, for every message length 0..24 (40) octets and every bit length up to 72 (136) through the per-algorithm functions.",
   note="AES uninterpreted; NIA1 bit lengths assume zero pad bits."),
 'C08': dict(cat='model_checking', ref='5/C08',
   text="Algebraic laws proved by z3 on the real NASEncrypt/NASMacCalculate with keystream generators and AES as uninterpreted functions: length preservation, involution, prefix stability, plaintext-independence of ciphertext xor plaintext, NULL algorithms, rejection of every invalid (algorithm, bearer, direction) triple over all 2^24 combinations with payload untouched, nil payload, MAC always 4 octets, key and message unmodified (also when the message / payload is a window into a larger buffer: nothing behind it is written), and absence of panics for every length including empty.",
   note="Lengths 0..20 (40)."),
 'C01': dict(cat='model_checking', ref='5/C01',
   text="The real decoders are executed symbolically (a) on every byte string of the stated short lengths per message type with all octets symbolic, through all three entry points, and (b) on an input of symbolic length 0..70000 whose contents are an uninterpreted function of the position, so that every declared IE length and every truncation point is one path; every slice/index/nil/make site is a solver query, progress and an allocation bound (c + 2*len + 64 KiB) are asserted after the mandatory part and two loop iterations (a violated bound is replayed natively by measuring real heap allocation). No sampling.",
   note="(b) is cut at the third entry into the optional-element loop; longer inputs rely on the per-iteration facts (DESIGN 5/C01)."),
 'C02': dict(cat='model_checking', ref='5/C02',
   text="For each of the 45 messages a symbolic well-formed message (every content octet symbolic) is built for the shape families none / all / each single / all-but-one optional element at boundary lengths, and with all optional elements present each heap-backed element in turn with a symbolic length over its whole range, encoded with the real PlainNasEncode and decoded with the real PlainNasDecode; z3 proves structural equality of the result with the original, success of both steps and the header view, for all contents at once.",
   note="Arbitrary subsets of optional elements follow by composition of C04's per-element facts (argument in DESIGN, not a solver result). Lengths capped at 24 (quick) / 300 (thorough); C04 covers every declared length on the decode side."),
 'C03': dict(cat='model_checking', ref='5/C03',
   text="(a) every accepted short byte string per message type: decode, re-encode, decode, encode again; the two messages and the two encodings are proved equal (fixed point), also for inputs in which an optional element occurs twice. (b) on symbolic-length input every accepted input decodes to a well-formed message. (c) reference encodings (table-driven encoder) of the shape families are accepted and the real re-encoding is proved byte-identical.",
   note="Tail lengths <= 3 (quick) / 5 (thorough) beyond the mandatory minimum for (a)."),
 'C04': dict(cat='model_checking', ref='5/C04',
   text="Differential check against an independent 150-line table-driven codec driven by /verif/spec/msgtables.json: real Decode<M> on symbolic-length input (0..70000, identifier octet over all 256 values, every declared length) must accept/reject exactly like the reference and yield the same field values; real Encode<M> output on the shape families (incl. one element of symbolic length) must equal the reference encoding; every optional element twice; PlainNasDecode must accept exactly what the reference accepts for header + mandatory part. All 90 generated functions are entered.",
   note="Quick explores the mandatory part plus one optional element, thorough two (PDUSessionEstablishmentAccept one in both tiers). Oracle provenance: tables bootstrapped from the pinned tree, then audited (spec/AUDIT.md); a drift of the code from the tables is detected with certainty, conformance of the tables to TS 24.501 as far as the audit goes."),
 'C05': dict(cat='model_checking', ref='5/C05',
   text="The real dispatchers are executed on all short inputs with symbolic octets (all 256x256 discriminator/type pairs) and per message type on all lengths up to the message's minimum + 2; on success exactly one body is set, it is the one named by the type octet, the other family is nil, the header view equals the body's header octets; unknown discriminator/type, nil, empty and short inputs are proved rejected; encode dispatch with symbolic header type; a second decode into a Message that already went through a decode of the same family still leaves exactly the named body.",
   note="Known header type with nil body on encode is outside the property as read (observation in DESIGN)."),
 'C10': dict(cat='model_checking', ref='5/C10',
   text="The engine's heap makes aliasing first-class: on every explored path of decode (accepted and rejected inputs) the input object is proved unchanged and no object reachable from the message is reachable from the input; for encode the message is proved unchanged, the buffer prefix kept and the appended bytes independent of the buffer's prior content; the same through PlainNasEncode / the family encoders on a Message built as callers do (header view included); a second run gives equal results.",
   note="Bounds as C03(a)/C02 shapes none+all."),
 'C20': dict(cat='model_checking', ref='5/C20',
   text="Inductive step decided by z3: from an arbitrary allocator state satisfying the representation invariant (any minValue, any scan offset, any live subset; range sizes 1..6/10) one Allocate / Allocate_inRange(any 16-bit a,b, and a at the extremes of int64) / FreeID(any int64) is executed symbolically on the real code (the scan loop is unrolled by execution, the Go map is a symbolic association list); asserted: id in [min,max], id was not live, live set = pre+{id}, failure only when all ids live, freed id allocatable again, invariant re-established. Plus all op histories of depth <=3/4 from NewGenerator. One step from any state covers sequences of any length.",
   note="Bounds: valueRange <= 6 (quick) / 10 (thorough); Allocate_inRange arguments 16-bit. maxValue < minValue outside the claim."),
 'C09': dict(cat='model_checking', ref='5/C09',
   text="Every annotated Get/Set pair of nasType (regenerated from /repo on each run) is executed symbolically on an element whose every octet, Iei and Len are symbolic, with a full-width symbolic argument; getter value, complete post-state of the setter (so all other bits, Iei, Len) and set-then-get are proved equal to a bit-layout reference derived from the 'Row, sBit, len' annotation. The DNN text accessors (label sequences of 1..255 octets) are checked against the label layout by hand-written harnesses. No sampling: one solver query per assertion covers all prior contents and all values.",
   note="Expected bit positions come from the source annotations (the documented position). Buffer-backed fields: Buffer just long enough for the field; INF fields at 3 buffer x 4 value lengths."),
 'C11': dict(cat='model_checking', ref='5/C11',
   text="Inductive step: each Count operation is executed symbolically from an arbitrary 32-bit state satisfying count<2^24 with full-width symbolic arguments; invariant, Get=Overflow*256+SQN, AddOne=(Get+1) mod 2^24 with carry, independence of SQN/Overflow setters and read-only getters are proved by z3; base case on the zero value. Covers histories of any length.",
   note="Full width, no bound on history length (induction over the invariant count < 2^24)."),
}
checks = []
for p in props:
    i = p['id']
    if i in claimed:
        c = claimed[i]
        checks.append({
            "property_id": i,
            "quick_cmd": f"./run_check.sh {i} quick",
            "thorough_cmd": f"./run_check.sh {i} thorough",
            "evidence_file": f"/verif/evidence/{i}.json",
            "replay_cmd_template": "cat {path}  # harness name + solver model; re-run: ./run_check.sh " + i + " quick (replays every model natively with go test -overlay)",
            "engine": "symgo",
            "level_claimed": {"category": c['cat'], "text": c['text'], "design_ref": c['ref']},
            "level_note": NOTE_COMMON + c['note'],
            "technique": TECH,
        })
na = [{"property_id": p['id'], "reason": "check not built yet (work in progress; DESIGN.md section 5 has the plan)"} for p in props if p['id'] not in claimed]
extra_na = {}
m = {
 "version": 1,
 "setup_cmd": "cd /verif/engine && GOFLAGS=-mod=mod GOPROXY=off GOSUMDB=off GOTOOLCHAIN=local go build -o /verif/bin/symgo ./cmd/symgo && /verif/tools/selftest.sh",
 "hooks": {"guard": "verif", "enable": "none needed: harnesses are injected into the real packages at load time through go/packages Overlay (and go test -overlay for native replay); nothing is written into /repo", "baseline_off_cmd": "cd /repo && go test -vet=off -count=1 -timeout 25m ./...", "source_commits": [], "add_only": True},
 "engines": [{"name": "symgo", "path": "/verif/engine", "serves_properties": sorted(claimed), "kind_free_text": "symbolic executor for Go SSA (golang.org/x/tools/go/ssa v0.29.0) emitting SMT-LIB2 bit-vector queries to z3; native replay of models with go test -overlay"}],
 "checks": checks,
 "notes": "All checks: ./run_check.sh <id> <tier>. Genuine defects repaired in /repo are 'fix:' commits listed in known_findings.json. See DESIGN.md.",
 "not_applicable": na,
}
json.dump(m, open(V + '/MANIFEST.json', 'w'), indent=1)
print("claimed:", sorted(claimed))
