#!/usr/bin/env python3
"""Regenerates /verif/MANIFEST.json from the table below (kept in one place so it stays valid)."""
import json, os
V = '/verif'
props = [json.loads(l) for l in open(V + '/properties.jsonl')]
TECH = "solver-based checking: symbolic execution of the real Go SSA (symgo) -> SMT-LIB2 bit-vector queries decided by z3; models replayed natively"
NOTE_COMMON = ("Trusted: go/ssa lowering (x/tools v0.29.0), the symgo executor's encoding of Go semantics and its intrinsics "
               "(bytes.Buffer, encoding/binary, fmt, errors; listed in DESIGN.md 2.6), z3 4.8.12. Bounds and what lies outside them are "
               "in the evidence file (coverage.bounds / coverage.outside_claim) and DESIGN.md. unknown/timeout/unsupported are reported "
               "as INCONCLUSIVE, never as success or violation. ")
claimed = {
 'C20': dict(cat='model_checking', ref='5/C20',
   text="Inductive step decided by z3: from an arbitrary allocator state satisfying the representation invariant (any minValue, any scan offset, any live subset; range sizes 1..6/10) one Allocate / Allocate_inRange(any 16-bit a,b) / FreeID(any int64) is executed symbolically on the real code (the scan loop is unrolled by execution, the Go map is a symbolic association list); asserted: id in [min,max], id was not live, live set = pre+{id}, failure only when all ids live, freed id allocatable again, invariant re-established. Plus all op histories of depth <=3/4 from NewGenerator. One step from any state covers sequences of any length.",
   note="Bounds: valueRange <= 6 (quick) / 10 (thorough); Allocate_inRange arguments 16-bit. maxValue < minValue outside the claim."),
 'C09': dict(cat='model_checking', ref='5/C09',
   text="Every annotated Get/Set pair of nasType (regenerated from /repo on each run) is executed symbolically on an element whose every octet, Iei and Len are symbolic, with a full-width symbolic argument; getter value, complete post-state of the setter (so all other bits, Iei, Len) and set-then-get are proved equal to a bit-layout reference derived from the 'Row, sBit, len' annotation. No sampling: one solver query per assertion covers all prior contents and all values.",
   note="Expected bit positions come from the source annotations (the documented position). Buffer-backed fields: Buffer just long enough for the field; INF fields at 3 buffer x 4 value lengths."),
 'C11': dict(cat='model_checking', ref='5/C11',
   text="Inductive step: each Count operation is executed symbolically from an arbitrary 32-bit state satisfying count<2^24 with full-width symbolic arguments; invariant, Get=Overflow*256+SQN, AddOne=(Get+1) mod 2^24 with carry, independence of SQN/Overflow setters and read-only getters are proved by z3; base case on the zero value. Covers histories of any length.",
   note="Full width, no bound on history length (induction over the invariant count < 2^24)."),
}
checks = []
for p in props:
    i = p['id']
    if i in claimed:
        c = claimed[i]
        checks.append({
            "property_id": i,
            "quick_cmd": f"./run_check.sh {i} quick",
            "thorough_cmd": f"./run_check.sh {i} thorough",
            "evidence_file": f"/verif/evidence/{i}.json",
            "replay_cmd_template": "cat {path}  # harness name + solver model; re-run: ./run_check.sh " + i + " quick (replays every model natively with go test -overlay)",
            "engine": "symgo",
            "level_claimed": {"category": c['cat'], "text": c['text'], "design_ref": c['ref']},
            "level_note": NOTE_COMMON + c['note'],
            "technique": TECH,
        })
na = [{"property_id": p['id'], "reason": "check not built yet (work in progress; DESIGN.md section 5 has the plan)"} for p in props if p['id'] not in claimed]
extra_na = {}
m = {
 "version": 1,
 "setup_cmd": "cd /verif/engine && GOFLAGS=-mod=mod GOPROXY=off GOSUMDB=off GOTOOLCHAIN=local go build -o /verif/bin/symgo ./cmd/symgo",
 "hooks": {"guard": "verif", "enable": "none needed: harnesses are injected into the real packages at load time through go/packages Overlay (and go test -overlay for native replay); nothing is written into /repo", "baseline_off_cmd": "cd /repo && go test -vet=off -count=1 -timeout 25m ./...", "source_commits": [], "add_only": True},
 "engines": [{"name": "symgo", "path": "/verif/engine", "serves_properties": sorted(claimed), "kind_free_text": "symbolic executor for Go SSA (golang.org/x/tools/go/ssa v0.29.0) emitting SMT-LIB2 bit-vector queries to z3; native replay of models with go test -overlay"}],
 "checks": checks,
 "notes": "All checks: ./run_check.sh <id> <tier>. Genuine defects repaired in /repo are 'fix:' commits listed in known_findings.json. See DESIGN.md.",
 "not_applicable": na,
}
json.dump(m, open(V + '/MANIFEST.json', 'w'), indent=1)
print("claimed:", sorted(claimed))
