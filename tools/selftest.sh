#!/bin/sh
# Native validation of the reference models (zz_verifref) against published vectors, algebraic table derivations and
# the library on random inputs. Uses go test -overlay; writes nothing into /repo.
set -e
export GOFLAGS=-mod=mod GOPROXY=off GOSUMDB=off GOTOOLCHAIN=local
w=/verif/work/selftest
mkdir -p $w
python3 - <<'PY'
import json, glob, os
repl = {}
for f in glob.glob('/verif/harness/common/zz_verifref/*.go'):
    repl['/repo/zz_verifref/' + os.path.basename(f)] = f
repl['/repo/security/zz_ref_selftest_test.go'] = '/verif/selftest/ref_selftest_test.go'
json.dump({'Replace': repl}, open('/verif/work/selftest/overlay.json', 'w'))
PY
cd /repo && go test -vet=off -count=1 -overlay $w/overlay.json -run 'TestRef' ./security/
