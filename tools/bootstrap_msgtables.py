#!/usr/bin/env python3
"""One-off bootstrap of /verif/spec/msgtables.json from the pinned tree's generated codecs.
The result is committed and from then on is the ORACLE (it is never regenerated at check time);
see spec/AUDIT.md for what was checked by hand against TS 24.501 v15."""
import re, glob, json, os, sys
REPO = sys.argv[1] if len(sys.argv) > 1 else '/repo'

def struct_fields(src, name):
    m = re.search(r'type %s struct \{(.*?)\n\}' % re.escape(name), src, re.S)
    out = []
    for line in m.group(1).strip().split('\n'):
        line = line.strip()
        if not line or line.startswith('//'): continue
        parts = line.split()
        out.append(parts)
    return out

# nasType shapes
types = {}
for f in glob.glob(REPO + '/nasType/NAS_*.go'):
    if f.endswith('_test.go'): continue
    s = open(f).read()
    for m in re.finditer(r'type (\w+) struct \{(.*?)\n\}', s, re.S):
        fields = {}
        for line in m.group(2).strip().split('\n'):
            p = line.split()
            if len(p) >= 2 and not p[0].startswith('//'):
                fields[p[0]] = p[1]
        types[m.group(1)] = fields

types.setdefault('Plain5GSNASMessage', {})
def octsize(t):
    o = types[t].get('Octet')
    if o is None: return None
    if o == 'uint8': return 1
    return int(o[1:o.index(']')])

gen = open(REPO + '/nas_generated.go').read()
msgtype = {k: int(v) for k, v in re.findall(r'MsgType(\w+)\s+uint8 = (\d+)', gen)}
kind = {}
for fam, body in re.findall(r'type (G[ms]mMessage) struct \{(.*?)\n\}', gen, re.S):
    for m in re.findall(r'\*nasMessage\.(\w+)', body):
        kind[m] = 'gmm' if fam == 'GmmMessage' else 'gsm'

tables = []
for f in sorted(glob.glob(REPO + '/nasMessage/NAS_*.go')):
    if f.endswith('_test.go'): continue
    s = open(f).read()
    tm = re.search(r'type (\w+) struct \{(.*?)\n\}', s, re.S)
    if not tm: continue
    M = tm.group(1)
    fields = []
    for line in tm.group(2).strip().split('\n'):
        line = line.strip()
        mm = re.match(r'(\*?)nasType\.(\w+)', line)
        if mm: fields.append((mm.group(2), mm.group(1) == '*'))
    ieis = {k: int(v, 16) for k, v in re.findall(r'%s(\w+)Type\s+uint8 = (0x[0-9A-Fa-f]+)' % M, s)}
    dec = re.search(r'func \(a \*%s\) Decode%s\(.*?\n\}\n' % (M, M), s, re.S).group(0)
    rows = []
    for name, opt in fields:
        t = types[name]
        row = {'name': name, 'presence': 'O' if opt else 'M'}
        # locate the code for this element
        if opt:
            cm = re.search(r'case %s%sType:(.*?)(?=\n\t\tcase |\n\t\tdefault:)' % (M, name), dec, re.S)
            code = cm.group(1)
            row['iei'] = ieis[name]
        else:
            # all statements mentioning a.<name>. before the loop
            pre = dec.split('for buffer.Len() > 0')[0]
            code = '\n'.join(l for l in pre.split('\n') if ('a.%s.' % name) in l or ('a.%s)' % name) in l or ('&a.%s)' % name) in l)
        haslen = ('&a.%s.Len' % name) in code
        lo, hi = None, None
        g = re.search(r'if a\.%s\.Len (.*?) \{' % name, code)
        if g:
            cond = g.group(1)
            nes = []
            for op, v in re.findall(r'(<|>|!=) (\d+)', re.sub(r'a\.%s\.Len ' % name, '', cond)):
                v = int(v)
                if op == '<': lo = v
                elif op == '>': hi = v
                else: nes.append(v)
            if len(nes) == 1: lo = hi = nes[0]
            elif nes:
                lo, hi = min(nes), max(nes)
                row['lens'] = sorted(nes)
        if haslen:
            e = t['Len'] == 'uint16'
            row['format'] = ('TLV-E' if e else 'TLV') if opt else ('LV-E' if e else 'LV')
            row['min'] = lo if lo is not None else 0
            row['max'] = hi if hi is not None else (65535 if e else 255)
            if 'Buffer' in t: row['store'] = 'Buffer'
            else:
                row['store'] = 'Octet'
                row['cap'] = octsize(name)
                if ('a.%s.Octet[:]' % name) in code: row['readall'] = True
        else:
            if opt and re.search(r'a\.%s\.Octet = ieiN' % name, code):
                row['format'] = 'TV1'  # half-octet: identifier in bits 8..5, value in bits 4..1 of the same octet
                row['len'] = 1
            elif ('&a.%s)' % name) in code or name == 'Plain5GSNASMessage':
                row['format'] = 'V'; row['len'] = 0
            else:
                n = octsize(name)
                if n is None:
                    row['format'] = 'T' if opt else 'V'; row['len'] = 0
                else:
                    row['format'] = 'TV' if opt else 'V'; row['len'] = n
        rows.append(row)
    tables.append({'message': M, 'family': kind.get(M, 'gmm'), 'msg_type': msgtype.get(M), 'rows': rows})

json.dump({'source': 'bootstrapped from free5gc/nas generated codecs at the pinned commit, then audited (see AUDIT.md)', 'messages': tables},
          open('/verif/spec/msgtables.json', 'w'), indent=1)
print(len(tables), 'messages', sum(len(t['rows']) for t in tables), 'rows')
import collections
print(collections.Counter(r['format'] for t in tables for r in t['rows']))
