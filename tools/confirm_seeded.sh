#!/bin/sh
# usage: tools/confirm_seeded.sh <id>   (expects /tmp/${SEED_PREFIX:-mut}_<id>.patch.diff and a zz_demo_test.go somewhere in /tmp/${SEED_PREFIX:-mut}_<id>)
# Confirms independently, in a fresh scratch worktree: patch applies, build + full suite pass with it,
# demo fails with it and passes without it. Removes the scratch worktree afterwards.
id=$1
export GOFLAGS=-mod=mod GOPROXY=off GOSUMDB=off GOTOOLCHAIN=local
w=/tmp/confirm_$id
git -C /repo worktree remove --force $w >/dev/null 2>&1
git -C /repo worktree add -q $w HEAD || exit 2
trap 'git -C /repo worktree remove --force '$w' >/dev/null 2>&1' EXIT
demo=$(cd /tmp/${SEED_PREFIX:-mut}_$id && find . -name zz_demo_test.go | head -1)
[ -n "$demo" ] || { echo "no demo found"; exit 2; }
cd $w
git apply /tmp/${SEED_PREFIX:-mut}_$id.patch.diff || { echo "PATCH-DOES-NOT-APPLY"; exit 1; }
go build ./... || { echo "BUILD-FAILS"; exit 1; }
if go test -vet=off -count=1 ./... > /tmp/confirm_$id.suite.log 2>&1; then echo "suite: PASS with change"; else echo "suite: FAILS with change"; tail -5 /tmp/confirm_$id.suite.log; exit 1; fi
cp /tmp/${SEED_PREFIX:-mut}_$id/$demo $w/$demo
d=$(dirname $demo)
extra=""
grep -q -- "-race" /tmp/${SEED_PREFIX:-mut}_$id.meta.txt 2>/dev/null && extra="-race"
if timeout 300 go test $extra -vet=off -count=1 -run TestSeededDemo ./$d > /tmp/confirm_$id.with.log 2>&1; then echo "demo with change: PASS (unexpected)"; exit 1; else echo "demo with change: FAIL (expected)"; fi
git apply -R /tmp/${SEED_PREFIX:-mut}_$id.patch.diff
if timeout 300 go test $extra -vet=off -count=1 -run TestSeededDemo ./$d > /tmp/confirm_$id.without.log 2>&1; then echo "demo without change: PASS (expected)"; else echo "demo without change: FAIL (unexpected)"; tail -5 /tmp/confirm_$id.without.log; exit 1; fi
echo "CONFIRMED $id demo=$demo"
