#!/bin/sh
# usage: tools/try_seeded.sh <patch.diff> <tier> <property ids...>
# Applies a seeded change to /repo, runs the given checks, and ALWAYS restores /repo afterwards.
patch=$1; tier=$2; shift 2
cd /repo || exit 2
if [ -n "$(git status --porcelain)" ]; then echo "refusing: /repo is not clean"; exit 2; fi
git apply "$patch" || { echo "patch does not apply"; exit 2; }
trap 'git -C /repo checkout -- . ; git -C /repo clean -fdq' EXIT INT TERM
cd /verif
for id in "$@"; do
  out=/verif/work/logs/seeded_$(basename "$patch" .diff)_$id.log
  mkdir -p /verif/work/logs
  VERIF_EVIDENCE_DIR=/verif/work/seeded_evidence timeout 3000 ./run_check.sh $id $tier > "$out" 2>&1
  echo "== $id exit=$? $(grep -c '^VIOLATION' $out) violation line(s); $(grep '^SUMMARY' $out | cut -c1-200)"
  grep '^VIOLATION\|^  harness' "$out" | head -6 | cut -c1-260
done
