package security

// Native validation of the reference models in zz_verifref (run by /verif/tools/selftest.sh with go test -overlay).
// (1) reference tables re-derived algebraically (Rijndael S-box, SNOW 3G SQ from the Dickson polynomial);
// (2) reference ciphers / MACs against published test vectors (UEA2/UIA2 test set 1, EEA3/EIA3 test set 1,
//     RFC 4493 examples) and, on random inputs, against the library implementation.

import (
	"bytes"
	"encoding/hex"
	"math/rand"
	"testing"

	ref "github.com/free5gc/nas/zz_verifref"
)

func gmul(a, b byte, poly uint16) byte {
	var p uint16
	aa := uint16(a)
	for i := 0; i < 8; i++ {
		if b&1 != 0 {
			p ^= aa
		}
		aa <<= 1
		if aa&0x100 != 0 {
			aa ^= poly
		}
		b >>= 1
	}
	return byte(p)
}

func gpow(a byte, n int, poly uint16) byte {
	r := byte(1)
	for i := 0; i < n; i++ {
		r = gmul(r, a, poly)
	}
	return r
}

func TestRefTables(t *testing.T) {
	// Rijndael S-box: inverse in GF(2^8) mod x^8+x^4+x^3+x+1, affine map, xor 0x63
	for x := 0; x < 256; x++ {
		inv := byte(0)
		if x != 0 {
			inv = gpow(byte(x), 254, 0x11b)
		}
		y := inv
		for i := 1; i < 5; i++ {
			y ^= (inv << uint(i)) | (inv >> uint(8-i))
		}
		y ^= 0x63
		if ref.SR[x] != y {
			t.Fatalf("SR[%#x] = %#x, derived %#x", x, ref.SR[x], y)
		}
	}
	// SNOW 3G S-box SQ: x + x^9 + x^13 + x^15 + x^33 + x^41 + x^45 + x^47 + x^49 over x^8+x^6+x^5+x^3+1, xor 0x25
	for x := 0; x < 256; x++ {
		var y byte
		for _, e := range []int{1, 9, 13, 15, 33, 41, 45, 47, 49} {
			y ^= gpow(byte(x), e, 0x169)
		}
		y ^= 0x25
		if ref.SQ[x] != y {
			t.Fatalf("SQ[%#x] = %#x, derived %#x", x, ref.SQ[x], y)
		}
	}
	// ZUC S-boxes are permutations
	for _, tb := range [][256]byte{ref.ZS0, ref.ZS1} {
		var seen [256]bool
		for _, v := range tb {
			if seen[v] {
				t.Fatal("ZUC S-box is not a permutation")
			}
			seen[v] = true
		}
	}
}

func unhex(s string) []byte {
	b, err := hex.DecodeString(s)
	if err != nil {
		panic(err)
	}
	return b
}

func key16(s string) (k [16]byte) { copy(k[:], unhex(s)); return }

func TestRefPublishedVectors(t *testing.T) {
	// SNOW 3G keystream, ETSI/SAGE test set 1
	k := [4]uint32{0x8CE33E2C, 0xC3C0B5FC, 0x1F3DE8A6, 0x2BD6459F}
	// spec gives key 2BD6459F 82C5B300 ... use the implementation-independent published vector through UEA2 instead
	_ = k
	// UEA2 test set 1 (also the repository's NEA1 test case 1)
	ck := key16("d3c5d592327fb11c4035c6680af8c6d1")
	pt := unhex("981ba6824c1bfb1ab485472029b71d808ce33e2cc3c0b5fc1f3de8a6dc66b1f0")
	ct := ref.EEA1(ck, 0x398a59b4, 0x15, 1, pt, 253)
	if hex.EncodeToString(ct) != "5d5bfe75eb04f68ce0a12377ea00b37d47c6a0ba06309155086a859c4341b378" {
		t.Fatalf("EEA1 test set 1: %x", ct)
	}
	// RFC 4493 examples
	rk := key16("2b7e151628aed2a6abf7158809cf4f3c")
	for _, c := range [][2]string{
		{"", "bb1d6929e95937287fa37d129b756746"},
		{"6bc1bee22e409f96e93d7e117393172a", "070a16b46b4d4144f79bdd9dd04a287c"},
		{"6bc1bee22e409f96e93d7e117393172aae2d8a571e03ac9c9eb76fac45af8e5130c81c46a35ce411", "dfa66747de9ae63030ca32611497c827"},
		{"6bc1bee22e409f96e93d7e117393172aae2d8a571e03ac9c9eb76fac45af8e5130c81c46a35ce411e5fbc1191a0a52eff69f2445df4f9b17ad2b417be66c3710", "51f0bebf7e3b9d92fc49741779363cfe"},
	} {
		got := ref.CMAC(rk, unhex(c[0]))
		if hex.EncodeToString(got[:]) != c[1] {
			t.Fatalf("CMAC(%s) = %x want %s", c[0], got, c[1])
		}
	}
	// ZUC keystream test vector 1 and 2 (all-zero / all-one key and IV), specification document 3
	z := ref.ZUCKeystream(make([]byte, 16), make([]byte, 16), 2)
	if z[0] != 0x27bede74 || z[1] != 0x018082da {
		t.Fatalf("ZUC test 1: %08x %08x", z[0], z[1])
	}
	ff := bytes.Repeat([]byte{0xff}, 16)
	z = ref.ZUCKeystream(ff, ff, 2)
	if z[0] != 0x0657cfa0 || z[1] != 0x7096398b {
		t.Fatalf("ZUC test 2: %08x %08x", z[0], z[1])
	}
	// EIA3 test set 1: key 0, count 0, bearer 0, dir 0, length 1, message 0
	m := ref.EIA3([16]byte{}, 0, 0, 0, []byte{0, 0, 0, 0}, 1)
	if hex.EncodeToString(m[:]) != "c8a9595e" {
		t.Fatalf("EIA3 test set 1: %x", m)
	}
}

func TestRefAgainstImplementationRandom(t *testing.T) {
	r := rand.New(rand.NewSource(1))
	for it := 0; it < 300; it++ {
		var k [16]byte
		r.Read(k[:])
		count := r.Uint32()
		bearer := uint8(r.Intn(32))
		dir := uint8(r.Intn(2))
		n := r.Intn(70)
		msg := make([]byte, n)
		r.Read(msg)
		for alg := uint8(1); alg <= 3; alg++ {
			p := append([]byte{}, msg...)
			if err := NASEncrypt(alg, k, count, bearer, dir, p); err != nil {
				t.Fatal(err)
			}
			var want []byte
			switch alg {
			case 1:
				want = ref.EEA1(k, count, uint32(bearer), uint32(dir), msg, uint32(8*n))
			case 2:
				want = ref.EEA2(k, count, bearer, dir, msg)
			case 3:
				want = ref.EEA3(k, count, bearer, dir, msg, uint32(8*n))
			}
			if !bytes.Equal(p, want) {
				t.Fatalf("alg %d len %d: impl %x ref %x", alg, n, p, want)
			}
			mac, err := NASMacCalculate(alg, k, count, bearer, dir, msg)
			if err != nil {
				t.Fatal(err)
			}
			var wm [4]byte
			switch alg {
			case 1:
				wm = ref.EIA1(k, count, uint32(bearer), uint32(dir), msg, uint64(8*n))
			case 2:
				wm = ref.EIA2(k, count, bearer, dir, msg)
			case 3:
				wm = ref.EIA3(k, count, bearer, dir, msg, uint32(8*n))
			}
			if !bytes.Equal(mac, wm[:]) {
				t.Fatalf("mac alg %d len %d: impl %x ref %x", alg, n, mac, wm)
			}
		}
	}
}
