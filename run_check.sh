#!/bin/sh
# usage: run_check.sh <property-id> <quick|thorough>
# Rebuilds the checker if needed, then runs the solver-based check of one property against /repo's current tree.
cd /verif || exit 2
export GOFLAGS=-mod=mod GOPROXY=off GOSUMDB=off GOTOOLCHAIN=local
if [ ! -x bin/symgo ] || [ -n "$(find engine -name '*.go' -newer bin/symgo 2>/dev/null | head -1)" ]; then
  (cd engine && go build -o /verif/bin/symgo ./cmd/symgo) || { echo "INCONCLUSIVE property=$1 checker build failed"; exit 2; }
fi
exec bin/symgo check -prop "$1" -tier "${2:-quick}"
