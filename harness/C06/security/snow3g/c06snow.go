package snow3g

import (
	"fmt"

	ref "github.com/free5gc/nas/zz_verifref"
	vrt "github.com/free5gc/nas/zz_verifrt"
)

// SNOW 3G lemmas: tables, leaf functions, one clock from an arbitrary state, loading, keystream driver.

func VH_C06_snow_tables() {
	i := vrt.U8("i")
	vrt.Assert(sr[i] == ref.SR[i], "SR table equals the Rijndael S-box")
	vrt.Assert(sq[i] == ref.SQ[i], "SQ table equals the SNOW 3G S-box")
	j := vrt.U8("j")
	if i != j {
		vrt.Assert(sr[i] != sr[j], "SR is a permutation")
		vrt.Assert(sq[i] != sq[j], "SQ is a permutation")
	}
}

func VH_C06_snow_leaves() {
	c := vrt.U8("c")
	k := vrt.U8("k")
	vrt.Assert(mulx(c, k) == ref.MULx(c, k), "mulx = MULx")
	for _, n := range []byte{0, 1, 6, 16, 23, 39, 48, 64, 239, 245} {
		vrt.Assert(mulxPow(c, n, 0xa9) == ref.MULxPOW(c, int(n), 0xa9), "mulxPow = MULxPOW")
	}
	vrt.Assert(mulAlpha(c) == ref.MULa(c), "mulAlpha = MULalpha")
	vrt.Assert(divAlpha(c) == ref.DIVa(c), "divAlpha = DIValpha")
	w := vrt.U32("w")
	vrt.Assert(s1(w) == ref.S1(w), "s1 = S1")
	vrt.Assert(s2(w) == ref.S2(w), "s2 = S2")
}

func c06state() (*snow3g, *ref.Snow3G) {
	s := &snow3g{}
	r := &ref.Snow3G{}
	for i := 0; i < 16; i++ {
		s.lfsr[i] = vrt.U32(fmt.Sprintf("s[%d]", i))
		r.S[i] = s.lfsr[i]
	}
	for i := 0; i < 3; i++ {
		s.fsm[i] = vrt.U32(fmt.Sprintf("r[%d]", i))
	}
	r.R1, r.R2, r.R3 = s.fsm[0], s.fsm[1], s.fsm[2]
	return s, r
}

func c06same(s *snow3g, r *ref.Snow3G, what string) {
	vrt.Assert(s.lfsr == r.S, what+": LFSR state equal")
	vrt.Assert(s.fsm[0] == r.R1 && s.fsm[1] == r.R2 && s.fsm[2] == r.R3, what+": FSM state equal")
}

// one clock of each kind from an arbitrary state
func VH_C06_snow_clock() {
	s, r := c06state()
	F := s.clockFsm(s.lfsr[15], s.lfsr[5])
	Fr := r.ClockFSM()
	vrt.Assert(F == Fr, "clockFsm output = ClockFSM")
	c06same(s, r, "after clockFsm")
	s.lfsrInitializationMode(F)
	r.ClockLFSRInitializationMode(Fr)
	c06same(s, r, "after lfsrInitializationMode")
	s.lfsrKeystreamMode()
	r.ClockLFSRKeyStreamMode()
	c06same(s, r, "after lfsrKeystreamMode")
}

func c06kiv() (k, iv [4]uint32) {
	for i := 0; i < 4; i++ {
		k[i] = vrt.U32(fmt.Sprintf("k[%d]", i))
		iv[i] = vrt.U32(fmt.Sprintf("iv[%d]", i))
	}
	return
}

func VH_C06_snow_init() {
	k, iv := c06kiv()
	s := newSnow3g(k, iv)
	var r ref.Snow3G
	r.Initialize(k, iv)
	c06same(s, &r, "after initialisation (32 clocks)")
}

func VH_C06_snow_keystream() {
	hi := 8
	if vrt.Thorough() {
		hi = 66
	}
	n := vrt.Choose("n", 0, hi)
	k, iv := c06kiv()
	ks := GetKeyStream(k, iv, n)
	var r ref.Snow3G
	r.Initialize(k, iv)
	kr := r.GenerateKeystream(n)
	vrt.Assert(len(ks) == n, "GetKeyStream returns n words")
	vrt.Equal(ks, kr, "GetKeyStream = Initialize + GenerateKeystream")
}

// word i of the keystream does not depend on how many words are requested (justifies the per-word abstraction)
func VH_C06_snow_prefix() {
	n := vrt.Choose("n", 0, 5)
	k, iv := c06kiv()
	a := GetKeyStream(k, iv, n)
	b := GetKeyStream(k, iv, n+3)
	vrt.Equal(a, b[:n], "GetKeyStream(n) is a prefix of GetKeyStream(n+3)")
	vrt.Equal(b, ref.SnowKeystream(k, iv, n+3), "GetKeyStream = reference SnowKeystream")
}

// long keystreams: a NAS payload may be 65535 octets = 16384 keystream words; whatever batching, block size or counter a
// generator uses internally, words far into the stream must still be the reference words. With a symbolic key the
// executor does not get through 4097 clocks within the per-path limit (measured: > 120 s), so key and IV are one of two
// fixed values here and only the length dimension is explored; the one-clock lemma (VH_C06_snow_clock) carries the
// key/IV quantifier for every clock of such a stream.
func VH_C06_snow_keystream_long() {
	ns := []int{1025} // 4097 words take about three minutes on one core: thorough tier
	if vrt.Thorough() {
		ns = []int{1025, 4097, 8193}
	}
	n := ns[vrt.Choose("nsel", 0, len(ns)-1)]
	var k, iv [4]uint32
	if vrt.Choose("keysel", 0, 1) == 0 {
		k = [4]uint32{0x2bd6459f, 0x82c5b300, 0x952c4910, 0x4881ff48}
		iv = [4]uint32{0xea024714, 0xad5c4d84, 0xdf1f9b25, 0x1c0bf45f}
	} else {
		k = [4]uint32{0xffffffff, 0, 0x80000001, 0x7fffffff}
		iv = [4]uint32{0, 0xffffffff, 1, 0x80000000}
	}
	ks := GetKeyStream(k, iv, n)
	var r ref.Snow3G
	r.Initialize(k, iv)
	kr := r.GenerateKeystream(n)
	vrt.Assert(len(ks) == n, "GetKeyStream returns n words (long)")
	vrt.Equal(ks[n-3:], kr[n-3:], "the last words of a long keystream are the reference words")
	vrt.Equal(ks[n/2:n/2+2], kr[n/2:n/2+2], "words in the middle of a long keystream are the reference words")
}
