package security

import (
	ref "github.com/free5gc/nas/zz_verifref"
	vrt "github.com/free5gc/nas/zz_verifrt"
)

func c06key(name string) (k [16]byte) {
	copy(k[:], vrt.Bytes(name, 16))
	return
}

func c06params() (count uint32, bearer, dir uint8) {
	count = vrt.U32("count")
	bearer = vrt.U8("bearer") & 31 // every 5-bit bearer
	dir = vrt.U8("dir") & 1        // both directions
	return
}

func c06bits() uint32 {
	hi := 64
	if vrt.Thorough() {
		hi = 256
	}
	return uint32(vrt.Choose("bits", 0, hi))
}

// per-algorithm API with arbitrary bit lengths (every length mod 32, every tail shape)
func VH_C06_nea1_bits() {
	c0xFullDepth()
	length := c06bits()
	ck := c06key("ck")
	count, bearer, dir := c06params()
	ibs := vrt.Bytes("ibs", int((length+7)/8))
	in := append([]byte{}, ibs...)
	obs, err := NEA1(ck, count, uint32(bearer), uint32(dir), ibs, length)
	vrt.Assert(err == nil, "NEA1 succeeds")
	want := ref.EEA1(ck, count, uint32(bearer), uint32(dir), in, length)
	vrt.Assert(len(obs) == len(ibs), "NEA1 preserves length")
	nfull := int(length / 8)
	vrt.Equal(obs[:nfull], want[:nfull], "NEA1 = 128-EEA1 on every whole octet")
	if length%8 != 0 {
		m := byte(0xff) << (8 - length%8)
		vrt.Assert(obs[nfull]&m == want[nfull]&m, "NEA1 = 128-EEA1 on the bits of the last partial octet")
	}
	vrt.Equal(ibs, in, "NEA1 does not modify its input")
}

func VH_C06_nea3_bits() {
	c0xFullDepth()
	length := c06bits()
	ck := c06key("ck")
	count, bearer, dir := c06params()
	ibs := vrt.Bytes("ibs", int((length+7)/8))
	in := append([]byte{}, ibs...)
	obs, err := NEA3(ck, count, bearer, dir, ibs, length)
	vrt.Assert(err == nil, "NEA3 succeeds")
	want := ref.EEA3(ck, count, bearer, dir, in, length)
	vrt.Equal(obs, want, "NEA3 = 128-EEA3 (pad bits of the last octet zero)")
	vrt.Equal(ibs, in, "NEA3 does not modify its input")
}

func c06octets() int {
	hi := 24
	if vrt.Thorough() {
		hi = 40
	}
	return vrt.Choose("octets", 0, hi)
}

func VH_C06_nea2() {
	n := c06octets()
	ck := c06key("ck")
	count, bearer, dir := c06params()
	ibs := vrt.Bytes("ibs", n)
	in := append([]byte{}, ibs...)
	obs, err := NEA2(ck, count, bearer, dir, ibs)
	vrt.Assert(err == nil, "NEA2 succeeds")
	vrt.Equal(obs, ref.EEA2(ck, count, bearer, dir, in), "NEA2 = 128-EEA2 (AES-128-CTR, counter block COUNT|BEARER|DIR|0^26|0^64)")
}

// the in-place byte-length API for algorithm identities 1, 2, 3
func VH_C06_nasencrypt() {
	c0xFullDepth()
	n := c06octets()
	alg := uint8(vrt.Choose("alg", 1, 3))
	ck := c06key("ck")
	count, bearer, dir := c06params()
	payload := vrt.Bytes("p", n)
	in := append([]byte{}, payload...)
	err := NASEncrypt(alg, ck, count, bearer, dir, payload)
	vrt.Assert(err == nil, "NASEncrypt succeeds for algorithms 1-3 with valid parameters")
	var want []byte
	switch alg {
	case 1:
		want = ref.EEA1(ck, count, uint32(bearer), uint32(dir), in, uint32(8*n))
	case 2:
		want = ref.EEA2(ck, count, bearer, dir, in)
	case 3:
		want = ref.EEA3(ck, count, bearer, dir, in, uint32(8*n))
	}
	vrt.Equal(payload, want, "NASEncrypt(alg) = 128-EEA<alg> in place")
}

// ---- the same mode-level equivalences with the keystream generators abstracted as uninterpreted functions
// (justified by VH_C06_snow_keystream / VH_C06_zuc_keystream: implementation generator = reference generator,
// and word i does not depend on the number of words requested). Small queries: a wrong IV bit, length rounding or
// mask is a satisfiable query with a short model.

func c06abstract() {
	vrt.UFSlice("github.com/free5gc/nas/security/snow3g.GetKeyStream", "SNOWKS", 2)
	vrt.UFSlice("github.com/free5gc/nas/zz_verifref.SnowKeystream", "SNOWKS", 2)
	vrt.UFSlice("github.com/free5gc/nas/security/zuc.Zuc", "ZUCKS", 2)
	vrt.UFSlice("github.com/free5gc/nas/zz_verifref.ZUCKeystream", "ZUCKS", 2)
}

func VH_C06_abs_nea1_bits() { c06abstract(); VH_C06_nea1_bits() }
func VH_C06_abs_nea3_bits() { c06abstract(); VH_C06_nea3_bits() }
func VH_C06_abs_nasencrypt() { c06abstract(); VH_C06_nasencrypt() }

// Full-depth comparisons (real keystream generators on both sides): on the unchanged tree both sides normalise to
// the same term and nothing is asked of the solver. If they do not, a disequality through 33 cipher clocks is out
// of reach for z3, so those queries get a short timeout and end INCONCLUSIVE quickly; counterexamples for such
// deviations come from the one-step lemmas and the abs_ variants of the same harnesses.
func c0xFullDepth() { vrt.QueryTimeout(3000) }
