package zuc

import (
	"fmt"

	ref "github.com/free5gc/nas/zz_verifref"
	vrt "github.com/free5gc/nas/zz_verifrt"
)

func VH_C06_zuc_tables() {
	i := vrt.U8("i")
	vrt.Assert(sbox0[i] == ref.ZS0[i], "S0 table equals the specification")
	vrt.Assert(sbox1[i] == ref.ZS1[i], "S1 table equals the specification")
	j := vrt.U8("j")
	if i != j {
		vrt.Assert(sbox0[i] != sbox0[j], "S0 is a permutation")
		vrt.Assert(sbox1[i] != sbox1[j], "S1 is a permutation")
	}
	d := vrt.U8("d") % 16
	vrt.Assert(ek_d[d] == ref.ZD[d], "constants D equal the specification")
}

func VH_C06_zuc_leaves() {
	x := vrt.U32("x")
	vrt.Assert(l1(x) == ref.ZL1(x), "l1 = L1")
	vrt.Assert(l2(x) == ref.ZL2(x), "l2 = L2")
	for _, k := range []int{2, 8, 10, 14, 18, 22, 24, 30} {
		vrt.Assert(rot(x, k) == ref.ROT(x, uint(k)), "rot = ROT")
	}
	a, b, c, d := vrt.U8("a"), vrt.U8("b"), vrt.U8("c"), vrt.U8("d")
	vrt.Assert(makeU32(a, b, c, d) == ref.MAKEU32(a, b, c, d), "makeU32 = MAKEU32")
}

func c06zstate() (*Lfsr, *Br, *Fsm, *ref.ZUC) {
	l, br, f := &Lfsr{}, &Br{}, &Fsm{}
	z := &ref.ZUC{}
	for i := 0; i < 16; i++ {
		l.s[i] = vrt.U32(fmt.Sprintf("s[%d]", i)) & 0x7FFFFFFF // LFSR cells are 31-bit values
		z.S[i] = l.s[i]
	}
	f.r[0], f.r[1] = vrt.U32("r1"), vrt.U32("r2")
	z.R1, z.R2 = f.r[0], f.r[1]
	return l, br, f, z
}

func c06zsame(l *Lfsr, f *Fsm, z *ref.ZUC, what string) {
	vrt.Assert(l.s == z.S, what+": LFSR equal")
	vrt.Assert(f.r[0] == z.R1 && f.r[1] == z.R2, what+": R1,R2 equal")
}

// one full step of each mode from an arbitrary state
func VH_C06_zuc_step() {
	l, br, f, z := c06zstate()
	br.bitReorganization(*l)
	z.BitReorganization()
	vrt.Assert(br.x[0] == z.X0 && br.x[1] == z.X1 && br.x[2] == z.X2 && br.x[3] == z.X3, "bitReorganization = BitReorganization")
	w := f.nonlinF(*br)
	wr := z.F()
	vrt.Assert(w == wr, "nonlinF output = F")
	c06zsame(l, f, z, "after F")
	l.state("InitialisationMode", w>>1)
	z.LFSRWithInitialisationMode(wr >> 1)
	c06zsame(l, f, z, "after LFSRWithInitialisationMode")
	l.state("WorkMode", 0)
	z.LFSRWithWorkMode()
	c06zsame(l, f, z, "after LFSRWithWorkMode")
}

func VH_C06_zuc_keystream() {
	hi := 6
	if vrt.Thorough() {
		hi = 20
	}
	n := vrt.Choose("n", 0, hi)
	k := vrt.Bytes("k", 16)
	iv := vrt.Bytes("iv", 16)
	ks := Zuc(k, iv, uint32(n))
	kr := ref.ZUCKeystream(k, iv, n)
	vrt.Assert(len(ks) == n, "Zuc returns n words")
	vrt.Equal(ks, kr, "Zuc = Initialization + GenerateKeystream")
}

func VH_C06_zuc_prefix() {
	n := vrt.Choose("n", 0, 4)
	k := vrt.Bytes("k", 16)
	iv := vrt.Bytes("iv", 16)
	a := Zuc(k, iv, uint32(n))
	b := Zuc(k, iv, uint32(n+3))
	vrt.Equal(a, b[:n], "Zuc(n) is a prefix of Zuc(n+3)")
}

// long keystreams (see the SNOW 3G twin): up to 16384 words
func VH_C06_zuc_keystream_long() {
	ns := []int{1025, 4097}
	if vrt.Thorough() {
		ns = []int{1025, 4097, 8193, 16384}
	}
	n := ns[vrt.Choose("nsel", 0, len(ns)-1)]
	k := vrt.Bytes("k", 16)
	iv := vrt.Bytes("iv", 16)
	ks := Zuc(k, iv, uint32(n))
	kr := ref.ZUCKeystream(k, iv, n)
	vrt.Assert(len(ks) == n, "Zuc returns n words (long)")
	vrt.Equal(ks[n-3:], kr[n-3:], "the last words of a long ZUC keystream are the reference words")
	vrt.Equal(ks[n/2:n/2+2], kr[n/2:n/2+2], "words in the middle of a long ZUC keystream are the reference words")
}
