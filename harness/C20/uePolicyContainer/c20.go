package uePolicyContainer

import (
	"fmt"

	vrt "github.com/free5gc/nas/zz_verifrt"
)

// C20: ID allocator. One operation from an arbitrary allocator state (inductive step), for every range size
// 1..R, arbitrary minValue, arbitrary scan offset and arbitrary live set; plus short histories from NewGenerator.

func c20R() int64 {
	if vrt.Thorough() {
		return int64(vrt.Choose("r", 1, 10))
	}
	return int64(vrt.Choose("r", 1, 6))
}

// c20state builds an arbitrary state satisfying the representation invariant:
// valueRange = max-min+1 = r, 0 <= offset < r, usedMap keys within [0, r).
func c20state(r int64) (*IDGenerator, []bool) {
	g := &IDGenerator{}
	g.minValue = vrt.I64("min")
	vrt.Assume(g.minValue >= -(1<<40) && g.minValue <= 1<<40)
	g.maxValue = g.minValue + r - 1
	g.valueRange = r
	g.offset = int64(vrt.U8("off")) // 8-bit symbolic scan offset (valueRange <= 10), keeps the % circuits narrow
	vrt.Assume(g.offset < r)
	g.usedMap = make(map[int64]bool)
	live := make([]bool, r)
	for i := int64(0); i < r; i++ {
		live[i] = vrt.Bool(fmt.Sprintf("live[%d]", i))
		if live[i] {
			g.usedMap[i] = true
		}
	}
	return g, live
}

func c20inv(g *IDGenerator, r int64, what string) {
	vrt.Assert(g.valueRange == r && g.maxValue-g.minValue+1 == r, what+": bounds unchanged")
	vrt.Assert(g.offset >= 0 && g.offset < r, what+": 0 <= offset < valueRange afterwards")
	k := vrt.I64("anykey")
	if k < 0 || k >= r {
		vrt.Assert(!vrt.MapHas(g.usedMap, k), what+": no key outside [0, valueRange) afterwards")
	}
}

// c20post: after a successful allocation of id, the live set is pre + {id}.
func c20post(g *IDGenerator, live []bool, r int64, id int64, what string) {
	vrt.Assert(id >= g.minValue && id <= g.maxValue, what+": id within [minValue, maxValue]")
	for i := int64(0); i < r; i++ {
		if id == g.minValue+i {
			vrt.Assert(!live[i], what+": id was not live")
			vrt.Assert(vrt.MapHas(g.usedMap, i), what+": id is live afterwards")
		} else {
			vrt.Assert(vrt.MapHas(g.usedMap, i) == live[i], what+": other ids keep their status")
		}
	}
}

func VH_C20_allocate_step() {
	{
		r := c20R()
		func() {
			g, live := c20state(r)
			id, err := g.Allocate()
			if err == nil {
				c20post(g, live, r, id, "Allocate")
			} else {
				for i := int64(0); i < r; i++ {
					vrt.Assert(live[i], "Allocate fails only when every id is live")
					vrt.Assert(vrt.MapHas(g.usedMap, i), "failed Allocate leaves live set")
				}
			}
			c20inv(g, r, "Allocate")
		}()
	}
}

func VH_C20_allocate_inrange_step() {
	{
		r := c20R()
		func() {
			g, live := c20state(r)
			a, b := int64(vrt.I16("a")), int64(vrt.I16("b")) // any 16-bit signed bounds
			id, err := g.Allocate_inRange(a, b)
			if err == nil {
				c20post(g, live, r, id, "Allocate_inRange")
				c20inv(g, r, "Allocate_inRange")
			} else {
				for i := int64(0); i < r; i++ {
					vrt.Assert(vrt.MapHas(g.usedMap, i) == live[i], "failed Allocate_inRange leaves live set")
				}
			}
		}()
	}
}

// the same step with the lower search bound at the extremes of int64 (negation, addition and % behave differently
// there: -MinInt64 == MinInt64, MaxInt64+1 wraps): the returned identifier still lies within the configured bounds
func VH_C20_allocate_inrange_extremes() {
	{
		r := c20R()
		func() {
			g, live := c20state(r)
			ext := []int64{-9223372036854775808, -9223372036854775807, -9223372036854775806, -(1 << 62), -(1 << 32) - 1, 1 << 32, 1 << 62, 9223372036854775806, 9223372036854775807}
			a := ext[vrt.Choose("extreme", 0, len(ext)-1)]
			b := int64(vrt.I16("b"))
			id, err := g.Allocate_inRange(a, b)
			if err == nil {
				c20post(g, live, r, id, "Allocate_inRange (extreme lower bound)")
				c20inv(g, r, "Allocate_inRange (extreme lower bound)")
			} else {
				for i := int64(0); i < r; i++ {
					vrt.Assert(vrt.MapHas(g.usedMap, i) == live[i], "failed Allocate_inRange (extreme lower bound) leaves live set")
				}
			}
		}()
	}
}

func VH_C20_free_step() {
	{
		r := c20R()
		func() {
			g, live := c20state(r)
			id := vrt.I64("id")
			g.FreeID(id)
			for i := int64(0); i < r; i++ {
				if id == g.minValue+i {
					vrt.Assert(!vrt.MapHas(g.usedMap, i), "FreeID: id not live afterwards")
				} else {
					vrt.Assert(vrt.MapHas(g.usedMap, i) == live[i], "FreeID: other ids keep their status")
				}
			}
			c20inv(g, r, "FreeID")
			if id >= g.minValue && id <= g.maxValue {
				// a freed identifier becomes allocatable again: the next plain allocation cannot fail
				_, err := g.Allocate()
				vrt.Assert(err == nil, "Allocate succeeds after FreeID of an in-range id")
			}
		}()
	}
}

// Histories from NewGenerator: every op sequence of length <= depth over {Allocate, FreeID(x), Allocate_inRange(a,b>=a>=0)}
// with a ghost live set; checks distinctness/bounds along the way and that the invariant is reachable (vacuity).
func VH_C20_history() {
	depth := 3
	if vrt.Thorough() {
		depth = 4
	}
	{
		r := int64(vrt.Choose("r", 1, 3))
		func() {
			min := vrt.I64("min")
			vrt.Assume(min >= -(1<<40) && min <= 1<<40)
			g := NewGenerator(min, min+r-1)
			live := make([]bool, r)
			for step := 0; step < depth; step++ {
				switch vrt.U8(fmt.Sprintf("op[%d]", step)) % 3 {
				case 0:
					id, err := g.Allocate()
					if err == nil {
						vrt.Assert(id >= min && id <= min+r-1, "history: Allocate id in bounds")
						vrt.Assert(!live[id-min], "history: Allocate id not live")
						live[id-min] = true
					} else {
						for i := int64(0); i < r; i++ {
							vrt.Assert(live[i], "history: Allocate fails only when exhausted")
						}
					}
				case 1:
					x := vrt.I64(fmt.Sprintf("x[%d]", step))
					g.FreeID(x)
					if x >= min && x <= min+r-1 {
						live[x-min] = false
					}
				case 2:
					a := int64(vrt.U16(fmt.Sprintf("a[%d]", step)))
					b := int64(vrt.U16(fmt.Sprintf("b[%d]", step)))
					vrt.Assume(b >= a)
					id, err := g.Allocate_inRange(a, b)
					if err == nil {
						vrt.Assert(id >= min && id <= min+r-1, "history: Allocate_inRange id in bounds")
						vrt.Assert(!live[id-min], "history: Allocate_inRange id not live")
						live[id-min] = true
					}
				}
			}
		}()
	}
}

// Large ranges: the scan loop of Allocate / Allocate_inRange has to be able to walk a whole cycle, whatever the
// size of the range. The live set is given intensionally (vrt.MapFillRange: every slot of [0, r) except one), so a
// range of 65 536 or more identifiers with all but one live is one path of r loop iterations; minValue stays
// symbolic. Cases: r = 257 and just below, at and above 2^16 (also 2^8, 2^15, 70000 and 2^17 at the thorough tier) x scan offset 0 / 1 / r/2 / r-1
// x the free slot being the farthest one from the offset, the one before it, the nearest one, or none at all.
func c20largeR() int64 {
	rs := []int64{257, 65535, 65536, 65537}
	if vrt.Thorough() {
		rs = append(rs, 255, 256, 32767, 32768, 70000, 131071, 131072, 131073)
	}
	return rs[vrt.Choose("rsel", 0, len(rs)-1)]
}

func c20large(r int64) (g *IDGenerator, free int64) {
	g = &IDGenerator{}
	g.minValue = vrt.I64("min")
	vrt.Assume(g.minValue >= -(1<<40) && g.minValue <= 1<<40)
	g.maxValue = g.minValue + r - 1
	g.valueRange = r
	offs := []int64{0, 1, r / 2, r - 1}
	g.offset = offs[vrt.Choose("offsel", 0, 3)]
	switch vrt.Choose("freesel", 0, 3) {
	case 0:
		free = (g.offset + r - 1) % r // farthest from the scan offset: r-1 live slots are stepped over first
	case 1:
		free = (g.offset + r - 2) % r
	case 2:
		free = g.offset
	default:
		free = -1 // every identifier live
	}
	g.usedMap = make(map[int64]bool)
	vrt.MapFillRange(g.usedMap, 0, r, free)
	return g, free
}

func VH_C20_allocate_large() {
	vrt.Unwind(400000)
	{
		r := c20largeR()
		func() {
			g, free := c20large(r)
			id, err := g.Allocate()
			if free < 0 {
				vrt.Assert(err != nil, "large range: Allocate fails when every id is live")
			} else {
				vrt.Assert(err == nil, "large range: Allocate fails only when every id is live")
				vrt.Assert(id == g.minValue+free, "large range: Allocate returns the one free id")
				vrt.Assert(vrt.MapHas(g.usedMap, free), "large range: id is live afterwards")
			}
			vrt.Assert(g.offset >= 0 && g.offset < r, "large range: 0 <= offset < valueRange afterwards")
		}()
	}
}

// every identifier live, one of them freed, then a plain allocation: it succeeds and returns the freed identifier
func VH_C20_free_then_allocate_large() {
	vrt.Unwind(400000)
	{
		r := c20largeR()
		func() {
			g := &IDGenerator{}
			g.minValue = vrt.I64("min")
			vrt.Assume(g.minValue >= -(1<<40) && g.minValue <= 1<<40)
			g.maxValue = g.minValue + r - 1
			g.valueRange = r
			offs := []int64{0, 1, r / 2, r - 1}
			g.offset = offs[vrt.Choose("offsel", 0, 3)]
			g.usedMap = make(map[int64]bool)
			vrt.MapFillRange(g.usedMap, 0, r, -1)
			dist := []int64{0, 1, r - 2, r - 1}
			free := (g.offset + dist[vrt.Choose("distsel", 0, 3)]) % r
			g.FreeID(g.minValue + free)
			id, err := g.Allocate()
			vrt.Assert(err == nil, "large range: a freed identifier becomes allocatable again")
			vrt.Assert(id == g.minValue+free, "large range: Allocate returns the freed id")
			_, err = g.Allocate()
			vrt.Assert(err != nil, "large range: Allocate fails again once the freed id is re-allocated")
		}()
	}
}

// Allocate_inRange over a large range: the search starts at a and may stop early (at b or at the previous offset),
// but whatever it returns is the free identifier, within bounds
func VH_C20_allocate_inrange_large() {
	vrt.Unwind(400000)
	{
		r := c20largeR()
		func() {
			g, free := c20large(r)
			as := []int64{0, r + 1, -1, 1, r - 1, r}
			na := 3
			if vrt.Thorough() {
				na = len(as)
			}
			a := as[vrt.Choose("asel", 0, na-1)]
			id, err := g.Allocate_inRange(a, -5) // an upper search bound the scan never meets
			if err == nil {
				vrt.Assert(free >= 0 && id == g.minValue+free, "large range: Allocate_inRange returns a free id")
				vrt.Assert(id >= g.minValue && id <= g.maxValue, "large range: Allocate_inRange id within bounds")
			}
			vrt.Assert(g.offset >= 0 && g.offset < r, "large range: 0 <= offset < valueRange after Allocate_inRange")
		}()
	}
}
