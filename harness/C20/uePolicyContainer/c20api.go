package uePolicyContainer

import (
	"fmt"

	vrt "github.com/free5gc/nas/zz_verifrt"
)

// C20 through the exported API only (NewGenerator / Allocate / Allocate_inRange / FreeID): this file keeps
// type-checking when the allocator's representation changes, which c20.go (arbitrary internal states) does not.

// Histories over LARGE ranges (2^16 and above, up to beyond 2^32) with few live identifiers: every op sequence of
// length <= depth with FreeID of any int64 and search bounds anywhere in [0, 2^18]. The ghost live set is the list of
// identifiers handed out and not freed since.
func VH_C20_history_large() {
	depth := 3
	if vrt.Thorough() {
		depth = 4
	}
	rs := []int64{65536, 65537, 70000, 200000, 1<<32 + 5}
	{
		r := rs[vrt.Choose("rsel", 0, len(rs)-1)]
		func() {
			min := vrt.I64("min")
			vrt.Assume(min >= -(1<<40) && min <= 1<<40)
			g := NewGenerator(min, min+r-1)
			ids := make([]int64, 0, depth)
			ok := make([]bool, 0, depth)
			record := func(id int64, what string) {
				vrt.Assert(id >= min && id <= min+r-1, "large history: "+what+" id in bounds")
				for j := range ids {
					vrt.Assert(!(ok[j] && ids[j] == id), "large history: "+what+" id not live")
				}
				ids = append(ids, id)
				ok = append(ok, true)
			}
			for step := 0; step < depth; step++ {
				switch vrt.U8(fmt.Sprintf("op[%d]", step)) % 3 {
				case 0:
					id, err := g.Allocate()
					vrt.Assert(err == nil, "large history: Allocate cannot fail with at most a handful of live ids")
					if err == nil {
						record(id, "Allocate")
					}
				case 1:
					x := vrt.I64(fmt.Sprintf("x[%d]", step))
					g.FreeID(x)
					for j := range ids {
						if ids[j] == x {
							ok[j] = false
						}
					}
				case 2:
					a := int64(vrt.U32(fmt.Sprintf("a[%d]", step)))
					b := int64(vrt.U32(fmt.Sprintf("b[%d]", step)))
					vrt.Assume(a <= 1<<18 && b <= 1<<18 && b >= a)
					id, err := g.Allocate_inRange(a, b)
					if err == nil {
						record(id, "Allocate_inRange")
					}
				}
			}
		}()
	}
}
