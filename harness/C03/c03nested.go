package nas

import (
	ref "github.com/free5gc/nas/zz_verifref"
	vrt "github.com/free5gc/nas/zz_verifrt"
)

// Elements whose value is itself a list of length-prefixed entries: NSSAI elements filled with WELL-FORMED S-NSSAI
// entries (length octet 1, 2, 4, 5 or 8 followed by that many octets), from one entry up to what the element holds.
// The message codec treats the value as opaque octets; whatever else it does with well-formed contents must not
// change the re-encoding. Canonical input, byte-exact re-encoding and fixed point; entry contents symbolic.
func c03nssaiValue(maxLen int) []byte {
	l := []int{1, 2, 4, 5, 8}[vrt.Choose("entryLen", 0, 4)]
	k := []int{1, 2, 8, 9, 16}[vrt.Choose("entries", 0, 4)]
	vrt.Assume(k*(1+l) <= maxLen)
	var v []byte
	for i := 0; i < k; i++ {
		v = append(v, byte(l))
		v = append(v, vrt.Bytes(string(rune('a'+i)), l)...)
	}
	return v
}

func c03nested(tbl []ref.Row, es []ref.Elem, iei uint8, what string) {
	for i, r := range tbl {
		if r.Opt && r.IEI == iei {
			v := c03nssaiValue(r.Max)
			es[i] = ref.Elem{Present: true, T: iei, L: len(v), V: v}
		}
	}
	in := ref.Encode(tbl, es)
	m1 := NewMessage()
	vrt.Assert(m1.PlainNasDecode(&in) == nil, what+": a canonical message with well-formed NSSAI entries is accepted")
	out, err := m1.PlainNasEncode()
	vrt.Assert(err == nil, what+": re-encoding succeeds")
	vrt.Equal(out, in, what+": re-encoding reproduces well-formed NSSAI entries byte for byte")
	zzFixpoint(in, what+" (NSSAI entries)")
}

func VH_C03_nssai_entries() {
	switch vrt.Choose("msg", 0, 2) {
	case 0:
		es := zzSymRegistrationRequest(1, 0)
		vrt.Assume(es[0].V[0] == 0x7e && es[2].V[0] == 65)
		c03nested(zzTblRegistrationRequest, es, 0x2f, "RegistrationRequest")
	case 1:
		es := zzSymRegistrationAccept(1, 0)
		vrt.Assume(es[0].V[0] == 0x7e && es[2].V[0] == 66)
		c03nested(zzTblRegistrationAccept, es, []uint8{0x15, 0x31}[vrt.Choose("which", 0, 1)], "RegistrationAccept")
	case 2:
		es := zzSymConfigurationUpdateCommand(1, 0)
		vrt.Assume(es[0].V[0] == 0x7e && es[2].V[0] == 84)
		c03nested(zzTblConfigurationUpdateCommand, es, []uint8{0x15, 0x31}[vrt.Choose("which", 0, 1)], "ConfigurationUpdateCommand")
	}
}
