package nasConvert

import (
	"fmt"

	"github.com/free5gc/nas/nasType"
	"github.com/free5gc/openapi/models"
	vrt "github.com/free5gc/nas/zz_verifrt"
)

// C12: identities wire <-> text. References written from TS 24.501 9.11.3.4 / TS 23.003 / TS 24.008 10.5.1.3.

func c12hex(n byte) byte {
	if n < 10 {
		return '0' + n
	}
	return 'a' + n - 10
}

func c12hexOf(b []byte) string {
	out := make([]byte, 0, 2*len(b))
	for _, x := range b {
		out = append(out, c12hex(x>>4), c12hex(x&15))
	}
	return string(out)
}

func c12digit(name string) byte {
	d := vrt.U8(name)
	vrt.Assume(d <= 9)
	return d
}

// three PLMN octets from digits (TS 24.008 10.5.1.3): MCC2|MCC1, MNC3|MCC3, MNC2|MNC1
func c12plmn(threeDigitMnc bool) (oct [3]byte, mcc, mnc string) {
	m1, m2, m3 := c12digit("mcc1"), c12digit("mcc2"), c12digit("mcc3")
	n1, n2 := c12digit("mnc1"), c12digit("mnc2")
	n3 := byte(0xf)
	mcc = string([]byte{'0' + m1, '0' + m2, '0' + m3})
	mnc = string([]byte{'0' + n1, '0' + n2})
	if threeDigitMnc {
		n3 = c12digit("mnc3")
		mnc += string([]byte{'0' + n3})
	}
	oct = [3]byte{m2<<4 | m1, n3<<4 | m3, n2<<4 | n1}
	return
}

func VH_C12_plmn() {
	three := vrt.Bool("threeDigitMnc")
	oct, mcc, mnc := c12plmn(three)
	vrt.Assert(PlmnIDToString(oct[:]) == mcc+mnc, "PlmnIDToString renders MCC then MNC digits")
	nas := PlmnIDToNas(models.PlmnId{Mcc: mcc, Mnc: mnc})
	vrt.Assert(len(nas) == 3 && nas[0] == oct[0] && nas[1] == oct[1] && nas[2] == oct[2], "PlmnIDToNas produces the TS 24.008 octet layout")
	back := PlmnIDToString(nas)
	vrt.Assert(back == mcc+mnc, "PLMN text -> wire -> text")
}

func VH_C12_amfid() {
	r := vrt.U8("region")
	s := vrt.U16("set") & 0x3ff
	p := vrt.U8("pointer") & 0x3f
	id := AmfIdToModels(r, s, p)
	want := c12hexOf([]byte{r, byte(s >> 2), byte(s&3)<<6 | p})
	vrt.Assert(id == want, "AmfIdToModels = hex(region, set[9:2], set[1:0]|pointer)")
	r2, s2, p2, err := AmfIdToNasWithError(want)
	vrt.Assert(err == nil && r2 == r && s2 == s && p2 == p, "AmfIdToNasWithError inverts the specified layout")
	r3, s3, p3, err := AmfIdToNasWithError(id)
	vrt.Assert(err == nil && r3 == r && s3 == s && p3 == p, "AMF id wire -> text -> wire")
	// agreement with the GUTI accessors on the same three octets
	var g nasType.GUTI5G
	g.SetAMFRegionID(r)
	g.SetAMFSetID(s)
	g.SetAMFPointer(p)
	vrt.Assert(c12hexOf(g.Octet[4:7]) == want, "GUTI5G AMF accessors agree with AmfIdToModels")
}

func VH_C12_amfid_text() {
	// every 6-hex-digit text (lower case): text -> wire -> text; any other character is an error
	b := vrt.Bytes("h", 3)
	s := c12hexOf(b)
	r, set, p, err := AmfIdToNasWithError(s)
	vrt.Assert(err == nil, "6 hex digits are accepted")
	vrt.Assert(AmfIdToModels(r, set, p) == s, "AMF id text -> wire -> text")
	bad := vrt.Str("bad", 6)
	ishex := true
	for i := 0; i < 6; i++ {
		c := bad[i]
		if !((c >= '0' && c <= '9') || (c >= 'a' && c <= 'f') || (c >= 'A' && c <= 'F')) {
			ishex = false
		}
	}
	if !ishex {
		_, _, _, err := AmfIdToNasWithError(bad)
		vrt.Assert(err != nil, "a non-hex character in an AMF id is an error")
	}
}

func VH_C12_guti_wire_to_text() {
	three := vrt.Bool("threeDigitMnc")
	oct, mcc, mnc := c12plmn(three)
	var buf [11]byte
	buf[0] = 0xf2
	copy(buf[1:4], oct[:])
	copy(buf[4:], vrt.Bytes("rest", 7))
	guami, guti, err := GutiToStringWithError(buf[:])
	vrt.Assert(err == nil, "an 11-octet GUTI is accepted")
	vrt.Assert(guami.PlmnId != nil && guami.PlmnId.Mcc == mcc && guami.PlmnId.Mnc == mnc, "GUAMI PLMN = MCC, MNC digits")
	vrt.Assert(guami.AmfId == c12hexOf(buf[4:7]), "GUAMI AMF id = hex of octets 5..7")
	vrt.Assert(guti == mcc+mnc+c12hexOf(buf[4:7])+c12hexOf(buf[7:11]), "GUTI text = PLMN digits, AMF id, TMSI")
	back, err := GutiToNasWithError(guti)
	vrt.Assert(err == nil, "the rendered GUTI text is accepted")
	vrt.Assert(back.Octet == buf && back.Len == 11, "GUTI wire -> text -> wire")
}

func VH_C12_guti_lengths() {
	n := vrt.Choose("n", 0, 24)
	s := vrt.Str("s", n)
	_, err := GutiToNasWithError(s)
	if n != 19 && n != 20 {
		vrt.Assert(err != nil, "GUTI text of a length other than 19 or 20 is an error")
		return
	}
	k := 5
	if n == 20 {
		k = 6
	}
	digits := true
	for i := 0; i < k; i++ {
		if s[i] < '0' || s[i] > '9' {
			digits = false
		}
	}
	ishex := true
	for i := k; i < n; i++ {
		c := s[i]
		if !((c >= '0' && c <= '9') || (c >= 'a' && c <= 'f') || (c >= 'A' && c <= 'F')) {
			ishex = false
		}
	}
	if !digits || !ishex {
		vrt.Assert(err != nil, "a non-digit in MCC/MNC or a non-hex character in AMF id/TMSI is an error")
	} else {
		vrt.Assert(err == nil, "well-formed GUTI text is accepted")
	}
}

func VH_C12_wire_lengths() {
	n := vrt.Choose("n", 0, 14)
	buf := vrt.Bytes("b", n)
	_, _, err := GutiToStringWithError(buf)
	vrt.Assert((err == nil) == (n == 11), "GutiToStringWithError accepts exactly 11 octets")
}

// SUCI, IMSI format. buf: [0] format/type, [1..3] PLMN, [4..5] routing indicator, [6] scheme, [7] key id, [8..] output
func VH_C12_suci() {
	three := vrt.Bool("threeDigitMnc")
	oct, mcc, mnc := c12plmn(three)
	k := vrt.Choose("outputOctets", 1, 4)
	if vrt.Thorough() {
		k = vrt.Choose("outputOctets2", 1, 8)
	}
	buf := make([]byte, 8+k)
	buf[0] = 0x01 // SUPI format IMSI, type of identity SUCI
	copy(buf[1:4], oct[:])
	// routing indicator: 1..4 digits, filler 0xf
	nri := vrt.Choose("routingDigits", 1, 4)
	ri := []byte{0xf, 0xf, 0xf, 0xf}
	ritxt := ""
	for i := 0; i < nri; i++ {
		ri[i] = c12digit(fmt.Sprintf("ri%d", i))
		ritxt += string([]byte{'0' + ri[i]})
	}
	buf[4] = ri[1]<<4 | ri[0]
	buf[5] = ri[3]<<4 | ri[2]
	scheme := vrt.U8("scheme") & 0x0f
	buf[6] = scheme
	buf[7] = vrt.U8("hnpki")
	out := vrt.Bytes("out", k)
	copy(buf[8:], out)
	schemeTxt := string([]byte{c12hex(scheme)})
	var outTxt string
	if scheme == 0 {
		// null scheme: MSIN as BCD digits, low nibble first; a trailing 0xf filler is dropped
		odd := vrt.Bool("msinOddDigits")
		for i := 0; i < k; i++ {
			lo, hi := out[i]&15, out[i]>>4
			vrt.Assume(lo <= 9)
			if i == k-1 && odd {
				vrt.Assume(hi == 0xf)
				outTxt += string([]byte{'0' + lo})
			} else {
				vrt.Assume(hi <= 9)
				outTxt += string([]byte{'0' + lo, '0' + hi})
			}
		}
	} else {
		outTxt = c12hexOf(out)
	}
	want := "suci-0-" + mcc + "-" + mnc + "-" + ritxt + "-" + schemeTxt + "-" + fmt.Sprintf("%d", buf[7]) + "-" + outTxt
	suci, plmn, err := SuciToStringWithError(buf)
	vrt.Assert(err == nil, "a well-formed IMSI-format SUCI is accepted")
	vrt.Assert(plmn == mcc+mnc, "SUCI PLMN id")
	vrt.Assert(suci == want, "SuciToStringWithError renders suci-0-mcc-mnc-routing-scheme-key-output")
	// the nasType getter must agree on the same octets
	mid := &nasType.MobileIdentity5GS{Len: uint16(len(buf)), Buffer: buf}
	vrt.Assert(mid.GetSUCI() == want, "MobileIdentity5GS.GetSUCI agrees with SuciToString")
	vrt.Assert(mid.GetPlmnID() == mcc+mnc, "MobileIdentity5GS.GetPlmnID agrees")
	// rendering is repeatable: the same element renders to the same text again (also through the dispatcher)
	vrt.Assert(mid.GetSUCI() == want, "MobileIdentity5GS.GetSUCI renders the same text when called again")
	s3, _, err3 := SuciToStringWithError(mid.Buffer)
	vrt.Assert(err3 == nil && s3 == want, "the identity octets still render to the same SUCI after the getters ran")
}

// protected SUCIs at their real sizes: ECIES profile A output is 32 + n + 8 octets, profile B 33 + n + 8 (n <= 5 MSIN
// octets: up to 46), operator-specific schemes anything the element can carry: outputs of 40..48, 100 and 200 octets
// (every non-null scheme value; first and last two octets symbolic) render like the short ones
func VH_C12_suci_long() {
	three := vrt.Bool("threeDigitMnc")
	oct, mcc, mnc := c12plmn(three)
	ks := []int{40, 41, 42, 43, 44, 45, 46, 47, 48, 100, 200}
	k := ks[vrt.Choose("outputSel", 0, len(ks)-1)]
	buf := make([]byte, 8+k)
	buf[0] = 0x01
	copy(buf[1:4], oct[:])
	ri := []byte{c12digit("ri0"), c12digit("ri1"), c12digit("ri2"), c12digit("ri3")}
	ritxt := string([]byte{'0' + ri[0], '0' + ri[1], '0' + ri[2], '0' + ri[3]})
	buf[4] = ri[1]<<4 | ri[0]
	buf[5] = ri[3]<<4 | ri[2]
	scheme := vrt.U8("scheme") & 0x0f
	vrt.Assume(scheme != 0)
	buf[6] = scheme
	buf[7] = vrt.U8("hnpki")
	// the length is the dimension explored here: the first and last two octets are symbolic, the ones in between a fixed
	// pattern (all of them symbolic made z3 give up on the 400-character text comparison)
	out := make([]byte, k)
	for i := range out {
		out[i] = byte(i*7 + 3)
	}
	edge := vrt.Bytes("out", 4)
	out[0], out[1], out[k-2], out[k-1] = edge[0], edge[1], edge[2], edge[3]
	copy(buf[8:], out)
	want := "suci-0-" + mcc + "-" + mnc + "-" + ritxt + "-" + string([]byte{c12hex(scheme)}) + "-" + fmt.Sprintf("%d", buf[7]) + "-" + c12hexOf(out)
	suci, plmn, err := SuciToStringWithError(buf)
	vrt.Assert(err == nil, "a protected SUCI with a scheme output of realistic size is accepted")
	vrt.Assert(plmn == mcc+mnc, "SUCI PLMN id (long scheme output)")
	vrt.Assert(suci == want, "SuciToStringWithError renders a long scheme output in full")
	mid := &nasType.MobileIdentity5GS{Len: uint16(len(buf)), Buffer: buf}
	vrt.Assert(mid.GetSUCI() == want, "MobileIdentity5GS.GetSUCI agrees with SuciToString (long scheme output)")
	s2, _ := SuciToString(buf)
	vrt.Assert(s2 == want, "SuciToString agrees with SuciToStringWithError (long scheme output)")
}

func VH_C12_suci_nai() {
	k := vrt.Choose("k", 1, 6)
	buf := make([]byte, 1+k)
	buf[0] = 0x11 // SUPI format NAI, SUCI
	copy(buf[1:], vrt.Bytes("nai", k))
	suci, _, err := SuciToStringWithError(buf)
	vrt.Assert(err == nil && suci == "nai-1-"+c12hexOf(buf[1:]), "NAI-format SUCI renders as nai-1-<hex>")
}

// IMEI / IMEISV (TS 24.501 9.11.3.4 figures 9.11.3.4.6/7): digit 1 in the high nibble of octet 1, then low/high nibbles
func VH_C12_pei() {
	n := vrt.Choose("octets", 1, 9)
	odd := vrt.Bool("odd")
	imei := vrt.Bool("imei")
	buf := make([]byte, n)
	d1 := c12digit("d1")
	typ := byte(5)
	prefix := "imeisv-"
	if imei {
		typ = 3
		prefix = "imei-"
	}
	buf[0] = d1<<4 | typ
	if odd {
		buf[0] |= 8
	}
	txt := string([]byte{'0' + d1})
	for i := 1; i < n; i++ {
		lo := c12digit(fmt.Sprintf("lo%d", i))
		if i == n-1 && !odd {
			buf[i] = 0xf0 | lo
			txt += string([]byte{'0' + lo})
		} else {
			hi := c12digit(fmt.Sprintf("hi%d", i))
			buf[i] = hi<<4 | lo
			txt += string([]byte{'0' + lo, '0' + hi})
		}
	}
	if n == 1 && !odd {
		return // even number of digits needs the filler nibble of a second octet
	}
	got, err := PeiToStringWithError(buf)
	vrt.Assert(err == nil, "PEI accepted")
	vrt.Assert(got == prefix+txt, "PeiToString renders the identity digits in order")
	mid := &nasType.MobileIdentity5GS{Len: uint16(n), Buffer: buf}
	if imei {
		vrt.Assert(mid.GetIMEI() == prefix+txt, "MobileIdentity5GS.GetIMEI agrees")
	} else {
		vrt.Assert(mid.GetIMEISV() == prefix+txt, "MobileIdentity5GS.GetIMEISV agrees")
	}
	again, err2 := PeiToStringWithError(mid.Buffer)
	vrt.Assert(err2 == nil && again == prefix+txt, "the identity octets still render to the same PEI after the getters ran")
}

func VH_C12_stmsi() {
	var t nasType.TMSI5GS
	copy(t.Octet[:], vrt.Bytes("o", 7))
	t.Octet[0] = 0xf4
	got, typ, err := t.Get5GSTMSI()
	vrt.Assert(err == nil && typ == "5G-S-TMSI", "5G-S-TMSI type")
	vrt.Assert(got == c12hexOf(t.Octet[1:7]), "5G-S-TMSI text = hex of AMF set/pointer and TMSI octets")
	mid := &nasType.MobileIdentity5GS{Len: 7, Buffer: t.Octet[:]}
	g2, _, err := mid.Get5GSTMSI()
	vrt.Assert(err == nil && g2 == got, "MobileIdentity5GS.Get5GSTMSI agrees")
	vrt.Assert(mid.Get5GTMSI() == c12hexOf(t.Octet[3:7]), "5G-TMSI = last four octets")
	g3, _, err := mid.Get5GSTMSI()
	vrt.Assert(err == nil && g3 == got, "MobileIdentity5GS.Get5GSTMSI renders the same text when called again")
}

// The wrappers without an error result are the same conversions: on every input they return what the
// error-returning variant returns, or the documented empty result when that variant reports an error.
func VH_C12_wrappers() {
	switch vrt.Choose("which", 0, 4) {
	case 0:
		n := vrt.Choose("n", 18, 21)
		s := vrt.Str("s", n)
		want, err := GutiToNasWithError(s)
		got := GutiToNas(s)
		if err != nil {
			vrt.Assert(got == (nasType.GUTI5G{Len: 11}), "GutiToNas returns the empty identity when GutiToNasWithError reports an error")
		} else {
			vrt.Assert(got == want, "GutiToNas returns what GutiToNasWithError returns")
		}
	case 1:
		buf := vrt.Bytes("b", vrt.Choose("n", 10, 12))
		wg, wt, err := GutiToStringWithError(buf)
		gg, gt := GutiToString(buf)
		if err != nil {
			vrt.Assert(gt == "" && gg.AmfId == "" && gg.PlmnId == nil, "GutiToString returns the empty result on error")
		} else {
			vrt.Assert(gt == wt && gg.AmfId == wg.AmfId && gg.PlmnId != nil && wg.PlmnId != nil && *gg.PlmnId == *wg.PlmnId, "GutiToString returns what GutiToStringWithError returns")
		}
	case 2:
		buf := vrt.Bytes("b", vrt.Choose("n", 7, 10))
		ws, wp, err := SuciToStringWithError(buf)
		gs, gp := SuciToString(buf)
		if err != nil {
			vrt.Assert(gs == "" && gp == "", "SuciToString returns empty strings on error")
		} else {
			vrt.Assert(gs == ws && gp == wp, "SuciToString returns what SuciToStringWithError returns")
		}
	case 3:
		buf := vrt.Bytes("b", vrt.Choose("n", 0, 4)) // the empty contents are the only error case
		w, err := PeiToStringWithError(buf)
		g := PeiToString(buf)
		if err != nil {
			vrt.Assert(g == "", "PeiToString returns the empty string on error")
		} else {
			vrt.Assert(g == w, "PeiToString returns what PeiToStringWithError returns")
		}
	case 4:
		s := vrt.Str("s", vrt.Choose("n", 5, 7))
		r, st, p, err := AmfIdToNasWithError(s)
		gr, gs, gp := AmfIdToNas(s)
		if err != nil {
			vrt.Assert(gr == 0 && gs == 0 && gp == 0, "AmfIdToNas returns zeros on error")
		} else {
			vrt.Assert(gr == r && gs == st && gp == p, "AmfIdToNas returns what AmfIdToNasWithError returns")
		}
	}
}
