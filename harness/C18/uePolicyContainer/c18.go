package uePolicyContainer

import (
	"fmt"

	"github.com/free5gc/nas/nasConvert"
	"github.com/free5gc/openapi/models"
	vrt "github.com/free5gc/nas/zz_verifrt"
)

// C18: UE policy container (TS 24.501 Annex D).

func c18n() int {
	if vrt.Thorough() {
		return vrt.Choose("n", 0, 13)
	}
	return vrt.Choose("n", 0, 10)
}

// (a) total decoders
func VH_C18_decode_any() {
	b := vrt.Bytes("b", c18n())
	u := NewUePolDeliverySer()
	_ = u.UePolDeliverySerDecode(b)
}

func VH_C18_list_parse_any() {
	b := vrt.Bytes("b", c18n())
	var l UEPolicySectionManagementListContent
	_ = l.UnmarshalBinary(b)
}

func VH_C18_result_parse_any() {
	b := vrt.Bytes("b", c18n())
	var l UEPolicySectionManagementResultContent
	_ = l.UnmarshalBinary(b)
}

// (c) PLMN octets: same digit order as every other PLMN encoder of the library (TS 24.008 10.5.1.3)
func c18plmn() (mcc, mnc int, want []uint8) {
	d := func(n string) int {
		v := int(vrt.U8(n))
		vrt.Assume(v <= 9)
		return v
	}
	m1, m2, m3 := d("mcc1"), d("mcc2"), d("mcc3")
	vrt.Assume(m1 >= 1) // the integer API cannot express a leading zero
	n1, n2 := d("mnc1"), d("mnc2")
	vrt.Assume(n1 >= 1)
	mcc = m1*100 + m2*10 + m3
	ch := func(v int) byte { return '0' + byte(v) }
	if vrt.Bool("mnc3digits") {
		n3 := d("mnc3")
		mnc = n1*100 + n2*10 + n3
		want = nasConvert.PlmnIDToNas(models.PlmnId{Mcc: string([]byte{ch(m1), ch(m2), ch(m3)}), Mnc: string([]byte{ch(n1), ch(n2), ch(n3)})})
	} else {
		mnc = n1*10 + n2
		want = nasConvert.PlmnIDToNas(models.PlmnId{Mcc: string([]byte{ch(m1), ch(m2), ch(m3)}), Mnc: string([]byte{ch(n1), ch(n2)})})
	}
	return
}

func VH_C18_plmn_digits() {
	mcc, mnc, want := c18plmn()
	var s UEPolicySectionManagementSubList
	vrt.Assert(s.SetPlmnDigit(mcc, mnc) == nil, "SetPlmnDigit accepts a 3-digit MCC and 2/3-digit MNC")
	vrt.Assert(s.PlmnDigit1 == want[0] && s.PlmnDigit2 == want[1] && s.PlmnDigit3 == want[2], "sub-list PLMN octets use the TS 24.008 digit order (= nasConvert.PlmnIDToNas)")
	var r UEPolicySectionManagementSubResult
	vrt.Assert(r.SetPlmnDigit(mcc, mnc) == nil, "SetPlmnDigit (result) accepts a 3-digit MCC and 2/3-digit MNC")
	vrt.Assert(r.PlmnDigit1 == want[0] && r.PlmnDigit2 == want[1] && r.PlmnDigit3 == want[2], "sub-result PLMN octets use the TS 24.008 digit order (= nasConvert.PlmnIDToNas)")
	// and the parsers read them back
	b, err := (&UEPolicySectionManagementListContent{s}).MarshalBinary()
	vrt.Assert(err == nil, "marshal sub-list")
	var back UEPolicySectionManagementListContent
	vrt.Assert(back.UnmarshalBinary(b) == nil && len(back) == 1, "parse sub-list")
	bm, bn := back[0].GetPlmnDigit()
	vrt.Assert(bm == mcc && bn == mnc, "sub-list MCC/MNC round-trip through the wire")
}

// (b) structures built through the API round-trip, lengths are computed from content
func VH_C18_command_roundtrip() {
	ns := vrt.Choose("sublists", 0, 2)
	ni := vrt.Choose("instructions", 0, 2)
	np := vrt.Choose("parts", 0, 2)
	cl := vrt.Choose("contentLen", 0, 3)
	if !vrt.Thorough() && ns == 2 {
		vrt.Assume(ni+np <= 3)
	}
	var list UEPolicySectionManagementListContent
	for s := 0; s < ns; s++ {
		var sub UEPolicySectionManagementSubList
		mcc := 100 + int(vrt.U8(fmt.Sprintf("s%dmcc", s)))
		mnc := 10 + int(vrt.U8(fmt.Sprintf("s%dmnc", s)))
		vrt.Assert(sub.SetPlmnDigit(mcc, mnc) == nil, "SetPlmnDigit ok")
		for i := 0; i < ni; i++ {
			var ins Instruction
			ins.SetUpsc(vrt.U16(fmt.Sprintf("s%di%dupsc", s, i)))
			for p := 0; p < np; p++ {
				var part UEPolicyPart
				part.UEPolicyPartType.SetPartType(vrt.U8(fmt.Sprintf("s%di%dp%dtype", s, i, p)))
				part.SetPartContent(vrt.Bytes(fmt.Sprintf("s%di%dp%dc", s, i, p), cl))
				part.SetLen(vrt.U16(fmt.Sprintf("s%di%dp%dstale", s, i, p))) // a stale length field (e.g. decoded, then modified) must not survive MarshalBinary
				ins.UEPolicySectionContents.AppendUEPolicyPart(&part)
			}
			ins.SetLen(vrt.U16(fmt.Sprintf("s%di%dstale", s, i)))
			sub.UEPolicySectionManagementSubListContents.AppendInstruction(ins)
		}
		sub.SetLen(vrt.U16(fmt.Sprintf("s%dstale", s)))
		list.AppendSublist(sub)
	}
	content, err := list.MarshalBinary()
	vrt.Assert(err == nil, "marshalling the section management list succeeds")
	// expected size: per sublist 2+3, per instruction 2+2, per part 2+1+cl
	vrt.Assert(len(content) == ns*(5+ni*(4+np*(3+cl))), "encoded size follows from the structure")
	var back UEPolicySectionManagementListContent
	vrt.Assert(back.UnmarshalBinary(content) == nil, "parsing the encoded list succeeds")
	vrt.Assert(len(back) == ns, "same number of sub-lists")
	for s := 0; s < ns; s++ {
		a, b := list[s], back[s]
		vrt.Assert(int(b.Len) == 3+ni*(4+np*(3+cl)), "sub-list length computed from content")
		vrt.Assert(a.PlmnDigit1 == b.PlmnDigit1 && a.PlmnDigit2 == b.PlmnDigit2 && a.PlmnDigit3 == b.PlmnDigit3, "PLMN octets round-trip")
		am, an := a.GetPlmnDigit()
		bm, bn := b.GetPlmnDigit()
		vrt.Assert(am == bm && an == bn, "MCC/MNC round-trip")
		vrt.Assert(len(b.UEPolicySectionManagementSubListContents) == ni, "same number of instructions")
		for i := 0; i < ni; i++ {
			x, y := a.UEPolicySectionManagementSubListContents[i], b.UEPolicySectionManagementSubListContents[i]
			vrt.Assert(x.Upsc == y.Upsc && int(y.Len) == 2+np*(3+cl), "instruction UPSC round-trips, length computed from content")
			vrt.Assert(len(y.UEPolicySectionContents) == np, "same number of policy parts")
			for p := 0; p < np; p++ {
				px, py := x.UEPolicySectionContents[p], y.UEPolicySectionContents[p]
				vrt.Assert(px.UEPolicyPartType == py.UEPolicyPartType && int(py.Len) == 1+cl, "policy part type round-trips, length = 1 + content")
				vrt.Equal(py.UEPolicyPartContents, px.UEPolicyPartContents, "policy part contents round-trip")
			}
		}
	}
	// the whole MANAGE UE POLICY COMMAND message
	u := NewUePolDeliverySer()
	u.SetHeaderPTI(vrt.U8("pti"))
	u.SetHeaderMessageType(MsgTypeManageUEPolicyCommand)
	u.ManageUEPolicyCommand = NewManageUEPolicyCommand(MsgTypeManageUEPolicyCommand)
	u.ManageUEPolicyCommand.PTI.Octet = u.GetHeaderPTI()
	u.ManageUEPolicyCommand.UEPolicySectionManagementList.SetIei(0x01)
	u.ManageUEPolicyCommand.UEPolicySectionManagementList.SetLen(uint16(len(content)))
	u.ManageUEPolicyCommand.UEPolicySectionManagementList.SetUEPolicySectionManagementListContent(content)
	wire, err := u.UePolDeliverySerEncode()
	vrt.Assert(err == nil, "encoding the command succeeds")
	d := NewUePolDeliverySer()
	vrt.Assert(d.UePolDeliverySerDecode(wire) == nil, "decoding the encoded command succeeds")
	vrt.Assert(d.ManageUEPolicyCommand != nil && d.ManageUEPolicyComplete == nil && d.ManageUEPolicyReject == nil, "only the command body is populated")
	vrt.Assert(d.UePolDeliveryHeader == u.UePolDeliveryHeader, "header round-trips")
	vrt.Assert(d.ManageUEPolicyCommand.UEPolicySectionManagementList.Iei == 0x01 && int(d.ManageUEPolicyCommand.UEPolicySectionManagementList.Len) == len(content), "list IE identifier and length round-trip")
	vrt.Equal(d.ManageUEPolicyCommand.UEPolicySectionManagementList.Buffer, content, "list IE contents round-trip")
}

func VH_C18_reject_complete_roundtrip() {
	nr := vrt.Choose("subresults", 0, 2)
	nres := vrt.Choose("results", 0, 2)
	var rc UEPolicySectionManagementResultContent
	for s := 0; s < nr; s++ {
		var sr UEPolicySectionManagementSubResult
		vrt.Assert(sr.SetPlmnDigit(100+int(vrt.U8(fmt.Sprintf("r%dmcc", s))), 10+int(vrt.U8(fmt.Sprintf("r%dmnc", s)))) == nil, "SetPlmnDigit ok")
		for i := 0; i < nres; i++ {
			r := NewResult()
			r.SetUpsc(vrt.U16(fmt.Sprintf("r%d_%dupsc", s, i)))
			r.FailInstructionOrder = vrt.U16(fmt.Sprintf("r%d_%dorder", s, i))
			sr.UEPolicySectionManagementSubResultContents.AppendResult(r)
		}
		sr.SetLen(vrt.U16(fmt.Sprintf("r%dstale", s))) // stale length field: MarshalBinary recomputes it from content
		rc.AppendSublist(sr)
	}
	content, err := rc.MarshalBinary()
	vrt.Assert(err == nil && len(content) == nr*(5+5*nres), "result content size follows from the structure")
	var back UEPolicySectionManagementResultContent
	vrt.Assert(back.UnmarshalBinary(content) == nil && len(back) == nr, "parsing the encoded results succeeds")
	for s := 0; s < nr; s++ {
		vrt.Assert(int(back[s].Len) == 3+5*nres, "sub-result length computed from content")
		vrt.Assert(len(back[s].UEPolicySectionManagementSubResultContents) == nres, "same number of results")
		for i := 0; i < nres; i++ {
			x, y := rc[s].UEPolicySectionManagementSubResultContents[i], back[s].UEPolicySectionManagementSubResultContents[i]
			vrt.Assert(x.Upsc == y.Upsc && x.FailInstructionOrder == y.FailInstructionOrder && y.Cause == 0x6f, "result fields round-trip")
		}
	}
	// MANAGE UE POLICY COMMAND REJECT and COMPLETE
	u := NewUePolDeliverySer()
	u.SetHeaderPTI(vrt.U8("pti"))
	if vrt.Bool("reject") {
		u.SetHeaderMessageType(MsgTypeManageUEPolicyReject)
		u.ManageUEPolicyReject = NewManageUEPolicyReject(MsgTypeManageUEPolicyReject)
		u.ManageUEPolicyReject.PTI.Octet = u.GetHeaderPTI()
		u.ManageUEPolicyReject.UEPolicySectionManagementResult.SetIei(0x01)
		u.ManageUEPolicyReject.UEPolicySectionManagementResult.SetLen(uint16(len(content)))
		u.ManageUEPolicyReject.UEPolicySectionManagementResult.SetUEPolicySectionManagementResultContent(content)
		wire, err := u.UePolDeliverySerEncode()
		vrt.Assert(err == nil, "encoding the reject succeeds")
		d := NewUePolDeliverySer()
		vrt.Assert(d.UePolDeliverySerDecode(wire) == nil && d.ManageUEPolicyReject != nil && d.ManageUEPolicyCommand == nil, "decoding the encoded reject populates the reject body")
		vrt.Equal(d.ManageUEPolicyReject.UEPolicySectionManagementResult.GetUEPolicySectionManagementResultContent(), content, "reject result contents round-trip")
	} else {
		u.SetHeaderMessageType(MsgTypeManageUEPolicyComplete)
		u.ManageUEPolicyComplete = NewManageUEPolicyComplete(MsgTypeManageUEPolicyComplete)
		u.ManageUEPolicyComplete.PTI.Octet = u.GetHeaderPTI()
		wire, err := u.UePolDeliverySerEncode()
		vrt.Assert(err == nil && len(wire) == 2, "the complete message is PTI and message type")
		d := NewUePolDeliverySer()
		vrt.Assert(d.UePolDeliverySerDecode(wire) == nil && d.ManageUEPolicyComplete != nil, "decoding the encoded complete populates the complete body")
		vrt.Assert(d.UePolDeliveryHeader == u.UePolDeliveryHeader, "complete header round-trips")
	}
}

// deep totality: well-formed outer layers (sub-list with valid PLMN digits, instruction) around symbolic inner
// bytes, so that the instruction and policy-part parsers see every length field value within short inputs.
func VH_C18_nested_any() {
	k := vrt.Choose("inner", 0, 6)
	if vrt.Thorough() {
		k = vrt.Choose("inner2", 0, 8)
	}
	inner := vrt.Bytes("x", k) // everything after the sub-list PLMN: instruction length, UPSC, parts ...
	d := func(n string) byte {
		v := vrt.U8(n)
		vrt.Assume(v <= 9)
		return v
	}
	b := []byte{0, byte(3 + k), d("a")<<4 | d("b"), 0xf0 | d("c"), d("e")<<4 | d("f")}
	b = append(b, inner...)
	var l UEPolicySectionManagementListContent
	_ = l.UnmarshalBinary(b)
	// and with the instruction header well-formed as well, symbolic policy-part bytes
	j := vrt.Choose("partBytes", 0, 5)
	part := vrt.Bytes("y", j)
	c := []byte{0, byte(3 + 4 + j), b[2], b[3], b[4], 0, byte(2 + j), vrt.U8("u0"), vrt.U8("u1")}
	c = append(c, part...)
	var l2 UEPolicySectionManagementListContent
	_ = l2.UnmarshalBinary(c)
	// same through the whole message
	msg := append([]byte{vrt.U8("pti"), MsgTypeManageUEPolicyCommand, 0x01, 0, byte(len(c))}, c...)
	u := NewUePolDeliverySer()
	_ = u.UePolDeliverySerDecode(msg)
}

// lengths at and beyond the 16-bit sign boundary. Command side: one sub-list / instruction / policy part whose
// content has a SYMBOLIC length 0..65525, so every nested length field takes every value up to 65535.
func VH_C18_command_symlen() {
	content := vrt.BytesSym("c", 65525)
	var part UEPolicyPart
	part.UEPolicyPartType.SetPartType(vrt.U8("ptype"))
	part.SetPartContent(content)
	var ins Instruction
	ins.SetUpsc(vrt.U16("upsc"))
	ins.UEPolicySectionContents.AppendUEPolicyPart(&part)
	var sub UEPolicySectionManagementSubList
	vrt.Assert(sub.SetPlmnDigit(208, 93) == nil, "SetPlmnDigit ok")
	sub.UEPolicySectionManagementSubListContents.AppendInstruction(ins)
	var list UEPolicySectionManagementListContent
	list.AppendSublist(sub)
	out, err := list.MarshalBinary()
	vrt.Assert(err == nil, "marshalling a list with a long policy part succeeds")
	vrt.Assert(len(out) == 5+4+3+len(content), "encoded size follows from the structure (any content length)")
	var back UEPolicySectionManagementListContent
	vrt.Assert(back.UnmarshalBinary(out) == nil, "parsing the encoded list succeeds for every content length")
	vrt.Assert(len(back) == 1 && len(back[0].UEPolicySectionManagementSubListContents) == 1, "one sub-list, one instruction")
	bi := back[0].UEPolicySectionManagementSubListContents[0]
	vrt.Assert(int(back[0].Len) == 3+4+3+len(content) && int(bi.Len) == 2+3+len(content), "nested lengths computed from content (any content length)")
	vrt.Assert(bi.Upsc == ins.Upsc && len(bi.UEPolicySectionContents) == 1, "instruction round-trips")
	bp := bi.UEPolicySectionContents[0]
	vrt.Assert(int(bp.Len) == 1+len(content) && bp.UEPolicyPartType == part.UEPolicyPartType, "part length and type round-trip")
	vrt.Assert(len(bp.UEPolicyPartContents) == len(content), "part content length round-trips")
	k := int(vrt.U16("pos"))
	if k < len(content) {
		vrt.Assert(bp.UEPolicyPartContents[k] == content[k], "part content round-trips at every position")
	}
}

// Result side: a sub-result with n results for n around the 16-bit sign boundary of its length field and at the
// maximum (Len = 3 + 5n: 32763, 32768, 32773, 65533); the wire image is written by hand, contents symbolic.
func VH_C18_result_large() {
	vrt.Unwind(14000)
	n := []int{6552, 6553, 6554, 13106}[vrt.Choose("nClass", 0, 3)]
	body := vrt.BytesSym("r", 65535)
	vrt.Assume(len(body) >= 5*n)
	body = body[:5*n] // concrete length, contents still an uninterpreted function of the position
	L := 3 + 5*n
	wire := append([]byte{byte(L >> 8), byte(L), 0x02, 0xf8, 0x39}, body...)
	var rc UEPolicySectionManagementResultContent
	vrt.Assert(rc.UnmarshalBinary(wire) == nil, "a well-formed sub-result with thousands of results is accepted")
	vrt.Assert(len(rc) == 1 && int(rc[0].Len) == L, "one sub-result with its declared length")
	rs := rc[0].UEPolicySectionManagementSubResultContents
	vrt.Assert(len(rs) == n, "every result is parsed")
	for _, k := range []int{0, n - 1} {
		vrt.Assert(rs[k].Upsc == uint16(body[5*k])<<8|uint16(body[5*k+1]) && rs[k].FailInstructionOrder == uint16(body[5*k+2])<<8|uint16(body[5*k+3]) && rs[k].Cause == 0x6f, "result UPSC and order are the octets at their positions, cause normalised to 0x6f")
	}
}

// every nested list type marshalled on its own up to the largest size its own 16-bit length field allows:
// a policy part with contents of symbolic length 0..65534 (length field 1..65535), alone and inside a section
// contents list; an instruction whose contents fill its length field (part contents up to 65530)
func VH_C18_part_symlen() {
	content := vrt.BytesSym("c", 65534)
	var part UEPolicyPart
	part.UEPolicyPartType.SetPartType(vrt.U8("ptype"))
	part.SetPartContent(content)
	var out []byte
	var err error
	if vrt.Bool("viaList") {
		var sc UEPolicySectionContents
		sc.AppendUEPolicyPart(&part)
		out, err = sc.MarshalBinary()
	} else {
		out, err = part.MarshalBinary()
	}
	vrt.Assert(err == nil, "a policy part whose length fits 16 bits is serialised (contents 0..65534 octets)")
	vrt.Assert(len(out) == 3+len(content), "part: length field, type, contents")
	vrt.Assert(int(out[0])<<8|int(out[1]) == 1+len(content), "part length field = 1 + contents, up to 65535")
	var back UEPolicySectionContents
	vrt.Assert(back.UnmarshalBinary(out) == nil && len(back) == 1, "the serialised part parses back")
	vrt.Assert(int(back[0].Len) == 1+len(content) && back[0].UEPolicyPartType == part.UEPolicyPartType && len(back[0].UEPolicyPartContents) == len(content), "part fields round-trip at every size")
	k := int(vrt.U16("pos"))
	if k < len(content) {
		vrt.Assert(back[0].UEPolicyPartContents[k] == content[k], "part contents round-trip at every position (any size)")
	}
}

func VH_C18_instruction_symlen() {
	content := vrt.BytesSym("c", 65530) // instruction length = 2 (UPSC) + 2 + 1 + contents <= 65535
	var part UEPolicyPart
	part.UEPolicyPartType.SetPartType(vrt.U8("ptype"))
	part.SetPartContent(content)
	var ins Instruction
	ins.SetUpsc(vrt.U16("upsc"))
	ins.UEPolicySectionContents.AppendUEPolicyPart(&part)
	var l UEPolicySectionManagementSubListContents
	l.AppendInstruction(ins)
	out, err := l.MarshalBinary()
	vrt.Assert(err == nil, "an instruction whose length fits 16 bits is serialised")
	vrt.Assert(len(out) == 2+2+3+len(content) && int(out[0])<<8|int(out[1]) == 2+3+len(content), "instruction length field = UPSC + parts, up to 65535")
	var back UEPolicySectionManagementSubListContents
	vrt.Assert(back.UnmarshalBinary(out) == nil && len(back) == 1 && len(back[0].UEPolicySectionContents) == 1, "the serialised instruction parses back")
	vrt.Assert(back[0].Upsc == ins.Upsc && len(back[0].UEPolicySectionContents[0].UEPolicyPartContents) == len(content), "instruction fields round-trip at every size")
}

// the largest number of instructions one sub-list can carry in a command (16382 empty instructions: sub-list
// length 65531) and one less, wire image written by hand with symbolic UPSCs: the list decodes with every
// instruction, through the list parser and through the whole MANAGE UE POLICY COMMAND
func VH_C18_instructions_large() {
	vrt.Unwind(20000)
	n := []int{16381, 16382}[vrt.Choose("nClass", 0, 1)]
	up := vrt.BytesSym("upsc", 40000)
	vrt.Assume(len(up) >= 2*n)
	up = up[:2*n] // concrete length, contents still an uninterpreted function of the position
	L := 3 + 4*n
	wire := make([]byte, 0, 5+4*n)
	wire = append(wire, byte(L>>8), byte(L), 0x02, 0xf8, 0x39)
	for i := 0; i < n; i++ {
		wire = append(wire, 0, 2, up[2*i], up[2*i+1])
	}
	var l UEPolicySectionManagementListContent
	vrt.Assert(l.UnmarshalBinary(wire) == nil, "a sub-list filled with the maximum number of instructions is accepted")
	vrt.Assert(len(l) == 1 && int(l[0].Len) == L && len(l[0].UEPolicySectionManagementSubListContents) == n, "every instruction of a maximal sub-list is parsed")
	for _, k := range []int{0, n - 1} {
		ins := l[0].UEPolicySectionManagementSubListContents[k]
		vrt.Assert(ins.Len == 2 && ins.Upsc == uint16(up[2*k])<<8|uint16(up[2*k+1]) && len(ins.UEPolicySectionContents) == 0, "instructions of a maximal sub-list keep their UPSC and order")
	}
	msg := make([]byte, 0, 5+len(wire))
	msg = append(msg, vrt.U8("pti"), MsgTypeManageUEPolicyCommand, 0x01, byte(len(wire)>>8), byte(len(wire)))
	msg = append(msg, wire...)
	u := NewUePolDeliverySer()
	vrt.Assert(u.UePolDeliverySerDecode(msg) == nil, "the command carrying a maximal sub-list decodes")
}

// A receiver that already went through a decode: decoding into it again gives exactly what a fresh receiver gives
// (nothing of the earlier message survives), for every pair of byte strings. The three message kinds and arbitrary input.
func VH_C18_decode_reused_receiver() {
	// a command with an empty list and the optional network classmark is 9 octets, with a one-octet list 10
	hi1, hi2 := 10, 7
	if vrt.Thorough() {
		hi1, hi2 = 12, 10
	}
	b1 := vrt.Bytes("b1", vrt.Choose("n1", 2, hi1))
	b2 := vrt.Bytes("b2", vrt.Choose("n2", 2, hi2))
	vrt.Assume(b1[1] >= 1 && b1[1] <= 4 && b2[1] >= 1 && b2[1] <= 4) // the message type octet: command, complete, reject, one unknown
	u := NewUePolDeliverySer()
	err1 := u.UePolDeliverySerDecode(b1)
	if err1 != nil {
		return
	}
	err2 := u.UePolDeliverySerDecode(b2)
	f := NewUePolDeliverySer()
	errF := f.UePolDeliverySerDecode(b2)
	vrt.Assert((err2 == nil) == (errF == nil), "a reused receiver accepts exactly what a fresh one accepts")
	if err2 == nil {
		w1, e1 := u.UePolDeliverySerEncode()
		w2, e2 := f.UePolDeliverySerEncode()
		vrt.Assert((e1 == nil) == (e2 == nil), "a reused receiver re-encodes like a fresh one (error)")
		if e1 == nil {
			vrt.Equal(w1, w2, "a reused receiver re-encodes to the same octets as a fresh one: nothing of the earlier message survives")
		}
	}
}
