package nasConvert

import (
	"fmt"

	vrt "github.com/free5gc/nas/zz_verifrt"
)

// C16: protocol configuration options and PDU session bitmaps.

func VH_C16_pco_roundtrip() {
	hiU, hiC := 3, 3
	if vrt.Thorough() {
		hiU, hiC = 4, 6
	}
	n := vrt.Choose("units", 0, hiU)
	pco := NewProtocolConfigurationOptions()
	var want []byte
	want = append(want, 0x80)
	for i := 0; i < n; i++ {
		l := vrt.Choose(fmt.Sprintf("len%d", i), 0, hiC)
		u := NewProtocolOrContainerUnit()
		u.ProtocolOrContainerID = vrt.U16(fmt.Sprintf("id%d", i))
		u.LengthOfContents = uint8(l)
		u.Contents = vrt.Bytes(fmt.Sprintf("c%d", i), l)
		if l == 0 && vrt.Bool(fmt.Sprintf("nil%d", i)) {
			u.Contents = nil // a container without contents may carry a nil slice as well as an empty one
		}
		pco.ProtocolOrContainerList = append(pco.ProtocolOrContainerList, u)
		want = append(want, byte(u.ProtocolOrContainerID>>8), byte(u.ProtocolOrContainerID), byte(l))
		want = append(want, u.Contents...)
	}
	out := pco.Marshal()
	vrt.Equal(out, want, "PCO: configuration protocol octet 0x80, then id, length, contents per unit in order")
	back := NewProtocolConfigurationOptions()
	err := back.UnMarshal(out)
	vrt.Assert(err == nil, "PCO: parsing the serialisation succeeds")
	vrt.Assert(len(back.ProtocolOrContainerList) == n, "PCO: same number of units")
	for i := 0; i < n; i++ {
		a, b := pco.ProtocolOrContainerList[i], back.ProtocolOrContainerList[i]
		vrt.Assert(a.ProtocolOrContainerID == b.ProtocolOrContainerID && a.LengthOfContents == b.LengthOfContents, "PCO: identifiers and lengths round-trip in order")
		vrt.Equal(b.Contents, a.Contents, "PCO: contents round-trip")
	}
}

// containers with contents of every length 0..255 (symbolic length, contents an arbitrary function of the position):
// the length octet's whole range, including the 255 boundary, round-trips
func VH_C16_pco_symlen() {
	n := vrt.Choose("units", 1, 2)
	pco := NewProtocolConfigurationOptions()
	for i := 0; i < n; i++ {
		u := NewProtocolOrContainerUnit()
		u.ProtocolOrContainerID = vrt.U16(fmt.Sprintf("id%d", i))
		u.Contents = vrt.BytesSym(fmt.Sprintf("c%d", i), 255)
		u.LengthOfContents = uint8(len(u.Contents))
		pco.ProtocolOrContainerList = append(pco.ProtocolOrContainerList, u)
	}
	out := pco.Marshal()
	total := 1
	for _, u := range pco.ProtocolOrContainerList {
		total += 3 + len(u.Contents)
	}
	vrt.Assert(len(out) == total, "PCO: serialised size = 1 + sum(3 + contents)")
	vrt.Assert(out[0] == 0x80, "PCO: configuration protocol octet 0x80 first")
	back := NewProtocolConfigurationOptions()
	err := back.UnMarshal(out)
	vrt.Assert(err == nil, "PCO: parsing the serialisation succeeds for every contents length 0..255")
	vrt.Assert(len(back.ProtocolOrContainerList) == n, "PCO: same number of units (contents of every length)")
	for i := 0; i < n; i++ {
		a, b := pco.ProtocolOrContainerList[i], back.ProtocolOrContainerList[i]
		vrt.Assert(a.ProtocolOrContainerID == b.ProtocolOrContainerID && a.LengthOfContents == b.LengthOfContents, "PCO: identifier and length round-trip (contents of every length)")
		vrt.Assert(len(b.Contents) == len(a.Contents), "PCO: contents length round-trips")
		k := int(vrt.U8(fmt.Sprintf("pos%d", i)))
		if k < len(a.Contents) {
			vrt.Assert(b.Contents[k] == a.Contents[k], "PCO: contents round-trip at every position")
		}
	}
}

func VH_C16_pco_arbitrary() {
	hi := 8
	if vrt.Thorough() {
		hi = 10
	}
	n := vrt.Choose("n", 0, hi)
	data := vrt.Bytes("d", n)
	snap := append([]byte{}, data...)
	pco := NewProtocolConfigurationOptions()
	err := pco.UnMarshal(data)
	vrt.Equal(data, snap, "PCO: parsing does not modify its input")
	if err != nil {
		return
	}
	// everything returned comes from the input: re-serialising the parsed units reproduces a prefix of the input
	for _, u := range pco.ProtocolOrContainerList {
		vrt.Assert(int(u.LengthOfContents) == len(u.Contents), "PCO: LengthOfContents = len(Contents) for parsed units")
	}
	m := pco.Marshal()
	vrt.Assert(len(m) >= 1 && m[0] == 0x80, "PCO: serialising a parsed list starts with the configuration-protocol octet 0x80 whatever the parsed first octet was")
	vrt.Assert(len(m) <= n || n == 0, "PCO: parsed units are not longer than the input")
	for i := 1; i < len(m) && i < n; i++ {
		vrt.Assert(m[i] == data[i], "PCO: parsed identifiers, lengths and contents are exactly the input octets at their positions")
	}
}

func VH_C16_psi() {
	b := vrt.Bytes("b", 2)
	arr := PSIToBooleanArray(b)
	for i := 0; i < 16; i++ {
		vrt.Assert(arr[i] == (b[i/8]&(1<<uint(i%8)) != 0), "PSI: entry i is bit i mod 8 of octet i div 8")
	}
	back := PSIToBuf(arr)
	vrt.Assert(len(back) == 2 && back[0] == b[0] && back[1] == b[1], "PSI: octets -> bitmap -> octets for all 65536 values")
	var a [16]bool
	for i := range a {
		a[i] = vrt.Bool(fmt.Sprintf("a%d", i))
	}
	buf := PSIToBuf(a)
	vrt.Assert(len(buf) == 2, "PSI: two octets")
	vrt.Assert(PSIToBooleanArray(buf) == a, "PSI: bitmap -> octets -> bitmap for all 65536 values")
}

func VH_C16_reactivation_error_cause() {
	n := vrt.Choose("n", 0, 4)
	m := vrt.Choose("m", 0, 4)
	ids := vrt.Bytes("id", n)
	causes := vrt.Bytes("cause", m)
	buf := PDUSessionReactivationResultErrorCauseToBuf(ids, causes)
	if n != m {
		vrt.Assert(len(buf) == 0, "mismatched lists give an empty result")
		return
	}
	vrt.Assert(len(buf) == 2*n, "one (id, cause) pair per entry")
	for i := 0; i < n; i++ {
		vrt.Assert(buf[2*i] == ids[i] && buf[2*i+1] == causes[i], "pairs are interleaved in order")
	}
}

// many units: the extended PCO has a 16-bit length, so a list may hold hundreds of (empty) units. Wire image written
// by hand, identifiers symbolic through an uninterpreted function of the position; every unit is parsed back, and
// the serialisation of the parsed list is the input again.
func VH_C16_pco_many() {
	vrt.Unwind(4000)
	n := []int{83, 84, 85, 86, 300, 1000}[vrt.Choose("units", 0, 5)]
	ids := vrt.BytesSym("ids", 4096)
	vrt.Assume(len(ids) >= 2*n)
	ids = ids[:2*n] // concrete length, contents still an uninterpreted function of the position
	wire := make([]byte, 0, 1+3*n)
	wire = append(wire, 0x80)
	for i := 0; i < n; i++ {
		wire = append(wire, ids[2*i], ids[2*i+1], 0)
	}
	pco := NewProtocolConfigurationOptions()
	vrt.Assert(pco.UnMarshal(wire) == nil, "PCO: a list of many empty units is accepted")
	vrt.Assert(len(pco.ProtocolOrContainerList) == n, "PCO: every unit of a long list is parsed")
	for _, k := range []int{0, 82, n - 2, n - 1} {
		u := pco.ProtocolOrContainerList[k]
		vrt.Assert(u.ProtocolOrContainerID == uint16(ids[2*k])<<8|uint16(ids[2*k+1]) && u.LengthOfContents == 0, "PCO: units of a long list keep their identifier and order")
	}
	vrt.Equal(pco.Marshal(), wire, "PCO: serialising the parsed long list reproduces the input")
}

// Two serialisations alive at once / a parsed list kept while another is parsed: the octets returned by Marshal belong to
// the caller (a later Marshal of another list must not change them, overwriting them must not change a later result),
// and the units of a parsed list do not share memory with the input or with a list parsed later into another value.
func VH_C16_results_held() {
	mk := func(tag string, n int) *ProtocolConfigurationOptions {
		pco := NewProtocolConfigurationOptions()
		for i := 0; i < n; i++ {
			l := vrt.Choose(fmt.Sprintf("%slen%d", tag, i), 0, 2)
			u := NewProtocolOrContainerUnit()
			u.ProtocolOrContainerID = vrt.U16(fmt.Sprintf("%sid%d", tag, i))
			u.LengthOfContents = uint8(l)
			u.Contents = vrt.Bytes(fmt.Sprintf("%sc%d", tag, i), l)
			pco.ProtocolOrContainerList = append(pco.ProtocolOrContainerList, u)
		}
		return pco
	}
	a, b := mk("a", vrt.Choose("na", 0, 2)), mk("b", vrt.Choose("nb", 0, 2))
	out1 := a.Marshal()
	keep1 := append([]byte{}, out1...)
	out2 := b.Marshal()
	keep2 := append([]byte{}, out2...)
	vrt.Equal(out1, keep1, "PCO: a serialisation the caller holds is not changed by serialising another list")
	for i := range out1 {
		out1[i] = ^out1[i]
	}
	vrt.Equal(out2, keep2, "PCO: two serialisations share no memory")
	again := a.Marshal()
	vrt.Equal(again, keep1, "PCO: serialising the same list again gives the same octets")
	vrt.Equal(out2, keep2, "PCO: an earlier serialisation is not changed by a later call")
	// parse, keep, parse another one, then overwrite the inputs
	p1, p2 := NewProtocolConfigurationOptions(), NewProtocolConfigurationOptions()
	vrt.Assert(p1.UnMarshal(keep1) == nil && p2.UnMarshal(keep2) == nil, "PCO: both serialisations parse")
	for i := range keep1 {
		keep1[i] = 0xee
	}
	for i := range keep2 {
		keep2[i] = 0xdd
	}
	vrt.Assert(len(p1.ProtocolOrContainerList) == len(a.ProtocolOrContainerList), "PCO: first parsed list keeps its units")
	for i, u := range p1.ProtocolOrContainerList {
		vrt.Assert(u.ProtocolOrContainerID == a.ProtocolOrContainerList[i].ProtocolOrContainerID, "PCO: first parsed list keeps its identifiers")
		vrt.Equal(u.Contents, a.ProtocolOrContainerList[i].Contents, "PCO: parsed contents do not alias the input or another parsed list")
	}
	for i, u := range p2.ProtocolOrContainerList {
		vrt.Equal(u.Contents, b.ProtocolOrContainerList[i].Contents, "PCO: second parsed list keeps its contents")
	}
}
