package nasConvert

import (
	"fmt"

	"github.com/free5gc/nas/nasType"
	vrt "github.com/free5gc/nas/zz_verifrt"
)

// C14: helpers that interpret UE-supplied IE contents never panic or hang: every byte string of length 0..N.

func c14n() int {
	if vrt.Thorough() {
		return vrt.Choose("n", 0, 24)
	}
	return vrt.Choose("n", 0, 12)
}

func VH_C14_SuciToString() {
	buf := vrt.Bytes("b", c14n())
	_, _, err := SuciToStringWithError(buf)
	_ = err
	s, p := SuciToString(buf)
	_, _ = s, p
}

func VH_C14_NaiToString() {
	buf := vrt.Bytes("b", c14n())
	_ = NaiToString(buf)
}

func VH_C14_GutiToString() {
	buf := vrt.Bytes("b", c14n())
	_, _, err := GutiToStringWithError(buf)
	_ = err
	_, _ = GutiToString(buf)
}

func VH_C14_PeiToString() {
	buf := vrt.Bytes("b", c14n())
	_, err := PeiToStringWithError(buf)
	_ = err
	_ = PeiToString(buf)
}

func VH_C14_RequestedNssaiToModels() {
	// every split of the contents into entries of the five legal lengths is a path: 0..12 octets quick, 0..18 thorough
	// (0..24 took 62 000 paths and ran into the 2400 s budget of the thorough tier)
	n := vrt.Choose("n", 0, 12)
	if vrt.Thorough() {
		n = vrt.Choose("n2", 0, 18)
	}
	nssai := &nasType.RequestedNSSAI{Iei: 0x2f, Len: uint8(n), Buffer: vrt.Bytes("b", n)}
	_, err := RequestedNssaiToModels(nssai)
	_ = err
}

func VH_C14_SnssaiToModels() {
	var s nasType.SNSSAI
	s.Len = vrt.U8("len")
	copy(s.Octet[:], vrt.Bytes("b", 8))
	_ = SnssaiToModels(&s)
}

func VH_C14_LadnToModels() {
	vrt.Unwind(40)
	n := vrt.Choose("n", 0, 7)
	if vrt.Thorough() {
		n = vrt.Choose("n2", 0, 10)
	}
	buf := vrt.Bytes("b", n)
	_ = LadnToModels(buf)
}

// long contents: a first (optional 1-octet) entry, then an entry whose length octet takes the boundary values of an
// octet (63, 64, 127, 128, 254, 255) with that many symbolic value octets actually present, then 0..3 more octets.
// Reaches what the short inputs cannot: arithmetic on a length octet near 255.
func c14long() []byte {
	l0 := []int{63, 64, 127, 128, 254, 255}[vrt.Choose("lenClass", 0, 5)]
	pre := vrt.Choose("entryBefore", 0, 1)
	tail := vrt.Choose("tail", 0, 3)
	var buf []byte
	if pre == 1 {
		buf = append(buf, 1, vrt.U8("p0"))
	}
	buf = append(buf, byte(l0))
	buf = append(buf, vrt.Bytes("body", l0+tail)...)
	return buf
}

func VH_C14_LadnToModels_long() {
	vrt.Unwind(40)
	buf := c14long()
	got := LadnToModels(buf)
	if got != nil {
		vrt.Assert(len(got) >= 1 && len(got) <= 6, "LADN: a well-formed long indication yields its entries")
	}
}

func VH_C14_RequestedNssaiToModels_long() {
	vrt.Unwind(40)
	buf := c14long()
	if len(buf) > 255 {
		buf = buf[:255]
	}
	nssai := &nasType.RequestedNSSAI{Iei: 0x2f, Len: uint8(len(buf)), Buffer: buf}
	_, err := RequestedNssaiToModels(nssai)
	_ = err
}

// many entries: k well-formed S-NSSAI entries of one of the five legal lengths (values symbolic), k around and beyond the
// 8 entries the specification allows, followed by 0..3 arbitrary octets (a truncated or illegal further entry)
func VH_C14_RequestedNssaiToModels_entries() {
	vrt.Unwind(80)
	ks := []int{0, 1, 7, 8, 9, 15, 16, 17}
	if vrt.Thorough() {
		ks = []int{0, 1, 2, 3, 4, 5, 6, 7, 8, 9, 10, 11, 12, 15, 16, 17, 20, 24}
	}
	k := ks[vrt.Choose("ksel", 0, len(ks)-1)]
	lens := []int{1, 2, 4, 5, 8}
	l := lens[vrt.Choose("lsel", 0, 4)]
	var buf []byte
	for i := 0; i < k; i++ {
		buf = append(buf, byte(l))
		buf = append(buf, vrt.Bytes(fmt.Sprintf("e%d", i), l)...)
	}
	buf = append(buf, vrt.Bytes("tail", vrt.Choose("t", 0, 3))...)
	if len(buf) > 255 {
		buf = buf[:255]
	}
	nssai := &nasType.RequestedNSSAI{Iei: 0x2f, Len: uint8(len(buf)), Buffer: buf}
	_, err := RequestedNssaiToModels(nssai)
	_ = err
}

func VH_C14_UESecurityCapabilityToByteArray() {
	buf := vrt.Bytes("b", c14n())
	_, _, _, _ = UESecurityCapabilityToByteArray(buf)
}

func VH_C14_PSIToBooleanArray() {
	buf := vrt.Bytes("b", c14n())
	_ = PSIToBooleanArray(buf)
}

func VH_C14_UpuAckToModels() {
	n := vrt.Choose("n", 0, 18)
	buf := vrt.Bytes("b", n)
	_, err := UpuAckToModels(buf)
	_ = err
}

func VH_C14_Time() {
	var tz nasType.LocalTimeZone
	tz.Octet = vrt.U8("tz")
	_ = DecodeLocalTimeZone(tz)
	var dst nasType.NetworkDaylightSavingTime
	dst.Len = vrt.U8("len")
	dst.Octet = vrt.U8("dst")
	_ = DecodeDaylightSavingTime(dst)
}

func VH_C14_AmfIdToNas() {
	n := vrt.Choose("n", 0, 8)
	s := vrt.Str("s", n)
	_, _, _, err := AmfIdToNasWithError(s)
	_ = err
	_, _, _ = AmfIdToNas(s)
}

func VH_C14_GutiToNas() {
	n := vrt.Choose("n", 0, 22)
	s := vrt.Str("s", n)
	_, err := GutiToNasWithError(s)
	_ = err
}

// text inputs with non-ASCII characters whose case mapping changes their UTF-8 length (Kelvin sign, dotted capital I,
// Ohm and Angstrom signs, a letter that grows, plain accented letters, an invalid octet): a byte-length check made
// before a case conversion says nothing about the length afterwards. The first MCC digit is symbolic, the other digits and the filler are fixed.
func VH_C14_text_nonascii() {
	menu := []string{"K", "İ", "Ω", "Å", "Ⱥ", "ß", "é", "\xff"}
	target := vrt.Choose("bytes", 19, 20)
	nd := vrt.Choose("digits", 5, 6)
	k := []int{1, 3, 5}[vrt.Choose("specials", 0, 2)]
	r := menu[vrt.Choose("rune", 0, len(menu)-1)]
	tail := vrt.Choose("tail", 0, 3)
	fill := target - nd - k*len(r) - tail
	vrt.Assume(fill >= 0)
	s := ""
	d0 := vrt.U8("d0") // first MCC digit symbolic, the others fixed
	vrt.Assume(d0 <= 9)
	s += string([]byte{'0' + d0})
	for i := 1; i < nd; i++ {
		s += "1"
	}
	ascii := func(nm string, n int) string { // filler: a fixed hex letter (the lengths are what matters here)
		b := make([]byte, n)
		for i := range b {
			b[i] = 'a'
		}
		return string(b)
	}
	s += ascii("f", fill)
	for i := 0; i < k; i++ {
		s += r
	}
	s += ascii("t", tail)
	switch vrt.Choose("fn", 0, 2) {
	case 0:
		_, err := GutiToNasWithError(s)
		_ = err
	case 1:
		_ = GutiToNas(s)
	case 2:
		_, _, _, err := AmfIdToNasWithError(s)
		_ = err
	}
}

// text inputs whose PLMN positions hold decimal digits that are not ASCII (Arabic-Indic, fullwidth, Devanagari,
// mathematical bold: 2, 3 and 4 octets each): "is a digit" and "is one octet" are different questions. Exactly 19 or
// 20 octets long, 1..3 such digits among the first characters, the rest ASCII digits / hex letters (all concrete but the
// first ASCII digit).
func VH_C14_text_unicode_digits() {
	menu := []string{"\u0663", "\uff12", "\u0968", "\U0001d7d0"}
	target := vrt.Choose("bytes", 19, 20)
	r := menu[vrt.Choose("rune", 0, len(menu)-1)]
	k := vrt.Choose("specials", 1, 3)
	pos := vrt.Choose("pos", 0, 4) // ASCII digits in front of the first special one
	d0 := vrt.U8("d0")
	vrt.Assume(d0 <= 9)
	s := ""
	for i := 0; i < pos; i++ {
		if i == 0 {
			s += string([]byte{'0' + d0})
		} else {
			s += "2"
		}
	}
	for i := 0; i < k; i++ {
		s += r
	}
	for len(s) < target {
		s += "a"
	}
	vrt.Assume(len(s) == target)
	if vrt.Bool("withError") {
		_, err := GutiToNasWithError(s)
		_ = err
	} else {
		_ = GutiToNas(s)
	}
}
