package nasType

import (
	vrt "github.com/free5gc/nas/zz_verifrt"
)

func c14n() int {
	if vrt.Thorough() {
		return vrt.Choose("n", 0, 24)
	}
	return vrt.Choose("n", 0, 12)
}

func c14mid() *MobileIdentity5GS {
	n := c14n()
	return &MobileIdentity5GS{Iei: 0x77, Len: uint16(n), Buffer: vrt.Bytes("b", n)}
}

// every text getter of MobileIdentity5GS on every buffer of length 0..N
func VH_C14_mid_GetMobileIdentity() { a := c14mid(); _, _, _ = a.GetMobileIdentity() }
func VH_C14_mid_GetTypeOfIdentity() { a := c14mid(); _, _ = a.GetTypeOfIdentity() }
func VH_C14_mid_GetSUCI()           { a := c14mid(); _ = a.GetSUCI() }
func VH_C14_mid_GetPlmnID()         { a := c14mid(); _ = a.GetPlmnID() }
func VH_C14_mid_Get5GGUTI()         { a := c14mid(); _ = a.Get5GGUTI() }
func VH_C14_mid_GetAmf() {
	a := c14mid()
	switch vrt.Choose("which", 0, 3) {
	case 0:
		_ = a.GetAmfID()
	case 1:
		_ = a.GetAmfRegionID()
	case 2:
		_ = a.GetAmfSetID()
	case 3:
		_ = a.GetAmfPointer()
	}
}
func VH_C14_mid_Get5GTMSI()  { a := c14mid(); _ = a.Get5GTMSI() }
func VH_C14_mid_GetIMEI()    { a := c14mid(); _ = a.GetIMEI(); _ = a.GetIMEISV() }
func VH_C14_mid_Get5GSTMSI() { a := c14mid(); _, _, _ = a.Get5GSTMSI() }

func VH_C14_DNN_GetDNN() {
	n := vrt.Choose("n", 0, 7) // every split of the buffer into labels is a path: 2^(n-1) paths per length
	if vrt.Thorough() {
		n = vrt.Choose("n2", 0, 10)
	}
	a := &DNN{Iei: 0x25, Len: uint8(n), Buffer: vrt.Bytes("b", n)}
	_ = a.GetDNN()
}

// long DNN contents: a label length octet at the boundary values of an octet with that many octets present
func VH_C14_DNN_GetDNN_long() {
	vrt.Unwind(40)
	l0 := []int{63, 64, 127, 128, 253, 254}[vrt.Choose("lenClass", 0, 5)]
	tail := vrt.Choose("tail", 0, 1)
	buf := append([]byte{byte(l0)}, vrt.Bytes("body", l0+tail)...)
	a := &DNN{Iei: 0x25, Len: uint8(len(buf)), Buffer: buf}
	_ = a.GetDNN()
}
