package security

import vrt "github.com/free5gc/nas/zz_verifrt"

// C11: NAS COUNT is a 24-bit overflow||sqn counter. One step of every operation from an arbitrary state
// satisfying the invariant count < 2^24 (inductive argument: any history).

func c11state() *Count {
	c := &Count{count: vrt.U32("count")}
	vrt.Assume(c.count < 1<<24)
	return c
}

func c11inv(c *Count, label string) {
	vrt.Assert(c.count < 1<<24, label+": invariant count < 2^24")
	vrt.Assert(c.Get() == uint32(c.Overflow())*256+uint32(c.SQN()), label+": Get = Overflow*256 + SQN")
	vrt.Assert(c.Get() < 1<<24, label+": Get < 2^24")
}

func VH_C11_base() {
	var c Count
	c11inv(&c, "zero value")
	vrt.Assert(c.Get() == 0, "zero value: Get = 0")
}

func VH_C11_addone() {
	c := c11state()
	g := c.Get()
	sqn, ov := c.SQN(), c.Overflow()
	c.AddOne()
	c11inv(c, "AddOne")
	vrt.Assert(c.Get() == (g+1)%(1<<24), "AddOne: Get' = (Get+1) mod 2^24")
	if sqn == 255 {
		vrt.Assert(c.SQN() == 0, "AddOne: SQN 255 rolls to 0")
		vrt.Assert(c.Overflow() == ov+1 || (ov == 0xffff && c.Overflow() == 0), "AddOne: carry into overflow")
	} else {
		vrt.Assert(c.SQN() == sqn+1 && c.Overflow() == ov, "AddOne: no carry")
	}
}

func VH_C11_setsqn() {
	c := c11state()
	ov := c.Overflow()
	s := vrt.U8("sqn")
	c.SetSQN(s)
	c11inv(c, "SetSQN")
	vrt.Assert(c.SQN() == s, "SetSQN: SQN = s")
	vrt.Assert(c.Overflow() == ov, "SetSQN: overflow unchanged")
}

func VH_C11_setoverflow() {
	c := c11state()
	sq := c.SQN()
	o := vrt.U16("ov")
	c.SetOverflow(o)
	c11inv(c, "SetOverflow")
	vrt.Assert(c.Overflow() == o, "SetOverflow: Overflow = o")
	vrt.Assert(c.SQN() == sq, "SetOverflow: sqn unchanged")
}

func VH_C11_set() {
	c := c11state()
	o, s := vrt.U16("ov"), vrt.U8("sqn")
	c.Set(o, s)
	c11inv(c, "Set")
	vrt.Assert(c.Overflow() == o && c.SQN() == s, "Set: both parts set")
	vrt.Assert(c.Get() == uint32(o)<<8|uint32(s), "Set: Get = o||s")
}

func VH_C11_reads() {
	c := c11state()
	g := c.Get()
	_ = c.SQN()
	_ = c.Overflow()
	g2 := c.Get()
	vrt.Assert(g == g2 && c.count == g, "reads do not change the value")
	c11inv(c, "reads")
}

// Even from a state violating the invariant (the field is only reachable through the methods, but be safe):
// every mutator followed by Get yields a value < 2^24.
func VH_C11_anystate() {
	c := &Count{count: vrt.U32("count")}
	switch vrt.U8("op") % 4 {
	case 0:
		c.AddOne()
	case 1:
		c.SetSQN(vrt.U8("sqn"))
	case 2:
		c.SetOverflow(vrt.U16("ov"))
	case 3:
		c.Set(vrt.U16("ov"), vrt.U8("sqn"))
	}
	vrt.Assert(c.Get() < 1<<24, "Get < 2^24 from any raw state")
	vrt.Assert(c.Get() == uint32(c.Overflow())*256+uint32(c.SQN()), "Get = Overflow*256+SQN from any raw state")
}

// Runs of increments with nothing in between (no read, no setter): the induction above observes the counter after
// every step; state that an implementation keeps outside `count` between observations only shows in longer runs.
// From an arbitrary state built through the API, n back-to-back increments add n modulo 2^24.
func VH_C11_runs() {
	var c Count
	ov, sqn := vrt.U16("ov"), vrt.U8("sqn")
	c.Set(ov, sqn)
	n := []int{1, 2, 255, 256, 257, 511, 512, 1000, 65535, 65536, 65537}[vrt.Choose("run", 0, 10)]
	for i := 0; i < n; i++ {
		c.AddOne()
	}
	want := (uint32(ov)<<8 | uint32(sqn)) + uint32(n)
	want &= 1<<24 - 1
	vrt.Assert(c.Get() == want, "a run of n increments adds n modulo 2^24")
	vrt.Assert(uint32(c.Overflow()) == want>>8 && uint32(c.SQN()) == want&0xff, "overflow and sequence number after a run of increments")
	c.SetSQN(vrt.U8("sqn2"))
	vrt.Assert(uint32(c.Overflow()) == want>>8, "SetSQN after a run keeps the overflow part")
}
