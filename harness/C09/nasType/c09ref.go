package nasType

// Reference bit layout for the "Row, sBit, len = [r0, r1], sBit, n" annotation of TS 24.501 figures:
// bit sBit (8 = most significant ... 1 = least significant) of octet r0 is the most significant bit of the
// field; the field continues downwards in that octet and then from bit 8 of the following octets.

func c09get(oct []uint8, r0, sBit, n int) uint64 {
	var v uint64
	row, bit := r0, sBit
	for i := 0; i < n; i++ {
		v = v<<1 | uint64((oct[row]>>uint(bit-1))&1)
		bit--
		if bit == 0 {
			bit = 8
			row++
		}
	}
	return v
}

func c09put(oct []uint8, r0, sBit, n int, v uint64) {
	row, bit := r0, sBit
	for i := 0; i < n; i++ {
		b := uint8((v >> uint(n-1-i)) & 1)
		oct[row] = oct[row]&^(1<<uint(bit-1)) | b<<uint(bit-1)
		bit--
		if bit == 0 {
			bit = 8
			row++
		}
	}
}

func c09mask(n int) uint64 {
	if n >= 64 {
		return ^uint64(0)
	}
	return 1<<uint(n) - 1
}
