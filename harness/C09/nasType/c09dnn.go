package nasType

import (
	vrt "github.com/free5gc/nas/zz_verifrt"
)

// DNN (9.11.2.1A; annotation "DNN Row, sBit, len = [0, 0], 8, INF"): the text accessors are not plain bit fields, the
// value is a sequence of length-prefixed labels. GetDNN returns the labels of the whole Buffer joined by '.', for
// every content size the one-octet length allows (not only the 100 octets SetDNN accepts); SetDNN stores the
// label encoding and GetDNN returns the text again; neither touches Iei, and GetDNN touches nothing.
func VH_C09_DNN_text() {
	shapes := [][]int{{0}, {1}, {3}, {1, 1}, {5, 0, 2}, {8, 7}, {62, 36}, {62, 37}, {63, 61}, {63, 63, 63, 62}, {40, 40, 40, 40, 40, 40}}
	labels := shapes[vrt.Choose("shape", 0, len(shapes)-1)]
	var buf []byte
	want := ""
	for i, l := range labels {
		b := vrt.Bytes(string(rune('a'+i)), l)
		buf = append(buf, byte(l))
		buf = append(buf, b...)
		if i > 0 {
			want += "."
		}
		want += string(b)
	}
	a := DNN{Iei: vrt.U8("iei"), Len: uint8(len(buf)), Buffer: buf}
	snap := append([]byte{}, buf...)
	got := a.GetDNN()
	vrt.Assert(got == want, "DNN.GetDNN returns every label of the contents joined by '.' (any content size up to 255)")
	vrt.Equal(a.Buffer, snap, "DNN.GetDNN leaves the contents")
	vrt.Assert(a.Len == uint8(len(buf)), "DNN.GetDNN leaves Len")
}

func VH_C09_DNN_set() {
	// the last shapes are multi-label names whose encoding is exactly 100, 99 and 98 octets (the maximum SetDNN accepts and just below)
	shapes := [][]int{{1}, {3}, {1, 1}, {8, 7}, {62, 36}, {30, 30, 30}, {32, 32, 33}, {32, 32, 32}, {19, 19, 19, 19, 19}, {19, 19, 19, 19, 18}, {19, 19, 19, 18, 18}, {24, 24, 24, 24}, {10, 10, 10, 10, 10, 10, 10, 10, 11}, {1, 1, 1, 62, 30}}
	labels := shapes[vrt.Choose("shape", 0, len(shapes)-1)]
	text := ""
	var enc []byte
	for i, l := range labels {
		b := vrt.Bytes(string(rune('a'+i)), l)
		for _, c := range b {
			vrt.Assume(c != '.')
		}
		if i > 0 {
			text += "."
		}
		text += string(b)
		enc = append(enc, byte(l))
		enc = append(enc, b...)
	}
	a := DNN{Iei: vrt.U8("iei"), Len: vrt.U8("len"), Buffer: vrt.Bytes("old", 3)}
	iei := a.Iei
	a.SetDNN(text)
	vrt.Equal(a.Buffer, enc, "DNN.SetDNN stores the length-prefixed labels")
	vrt.Assert(int(a.Len) == len(enc) && a.Iei == iei, "DNN.SetDNN sets Len to the encoded size and leaves Iei")
	vrt.Assert(a.GetDNN() == text, "DNN set-then-get returns the text")
}
