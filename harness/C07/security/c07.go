package security

import (
	ref "github.com/free5gc/nas/zz_verifref"
	vrt "github.com/free5gc/nas/zz_verifrt"
)

func c07key(name string) (k [16]byte) {
	copy(k[:], vrt.Bytes(name, 16))
	return
}

func c07params() (count uint32, bearer, dir uint8) {
	count = vrt.U32("count")
	bearer = vrt.U8("bearer") & 31
	dir = vrt.U8("dir") & 1
	return
}

func c07octets() int {
	hi := 24
	if vrt.Thorough() {
		hi = 40
	}
	return vrt.Choose("octets", 0, hi)
}

func c07mac(m []byte) (r [4]byte) {
	copy(r[:], m)
	return
}

// GF(2^64) multiplication used by NIA1 against the specification's MUL64, full width
func VH_C07_mul64() {
	V, P := vrt.U64("V"), vrt.U64("P")
	vrt.Assert(mulx(V, 0x1b) == ref.MUL64x(V, 0x1b), "mulx = MUL64x")
	vrt.Assert(mul(V, P, 0x1b) == ref.MUL64(V, P, 0x1b), "mul = MUL64")
}

// byte-length API (the one NAS uses): every message length in octets, algorithms 1..3
func VH_C07_nasmac() {
	c0xFullDepth()
	n := c07octets()
	alg := uint8(vrt.Choose("alg", 1, 3))
	ik := c07key("ik")
	count, bearer, dir := c07params()
	msg := vrt.Bytes("m", n)
	in := append([]byte{}, msg...)
	mac, err := NASMacCalculate(alg, ik, count, bearer, dir, msg)
	vrt.Assert(err == nil, "NASMacCalculate succeeds for algorithms 1-3 with valid parameters")
	vrt.Assert(len(mac) == 4, "MAC is 4 octets")
	var want [4]byte
	switch alg {
	case 1:
		want = ref.EIA1(ik, count, uint32(bearer), uint32(dir), in, uint64(8*n))
	case 2:
		want = ref.EIA2(ik, count, bearer, dir, in)
	case 3:
		want = ref.EIA3(ik, count, bearer, dir, in, uint32(8*n))
	}
	vrt.Assert(c07mac(mac) == want, "NASMacCalculate(alg) = 128-EIA<alg>")
	vrt.Equal(msg, in, "the message is not modified")
}

// per-algorithm functions with bit lengths that are not multiples of 8, 32 or 64 (pad bits of the last octet zero)
func VH_C07_nia1_bits() {
	c0xFullDepth()
	hi := 72
	if vrt.Thorough() {
		hi = 136
	}
	length := uint64(vrt.Choose("bits", 1, hi))
	ik := c07key("ik")
	count, bearer, dir := c07params()
	n := int((length + 7) / 8)
	msg := vrt.Bytes("m", n)
	if length%8 != 0 {
		msg[n-1] &= byte(0xff) << (8 - length%8) // precondition: bits beyond length are zero
	}
	in := append([]byte{}, msg...)
	mac, err := NIA1(ik, count, bearer, uint32(dir), msg, length)
	vrt.Assert(err == nil && len(mac) == 4, "NIA1 returns a 4-octet MAC")
	vrt.Assert(c07mac(mac) == ref.EIA1(ik, count, uint32(bearer), uint32(dir), in, length), "NIA1 = 128-EIA1 for every bit length")
}

func VH_C07_nia3_bits() {
	c0xFullDepth()
	hi := 72
	if vrt.Thorough() {
		hi = 136
	}
	length := uint32(vrt.Choose("bits", 0, hi))
	ik := c07key("ik")
	count, bearer, dir := c07params()
	n := int((length + 7) / 8)
	msg := vrt.Bytes("m", n)
	in := append([]byte{}, msg...)
	mac, err := NIA3(ik, count, bearer, dir, msg, length)
	vrt.Assert(err == nil && len(mac) == 4, "NIA3 returns a 4-octet MAC")
	vrt.Assert(c07mac(mac) == ref.EIA3(ik, count, bearer, dir, in, length), "NIA3 = 128-EIA3 for every bit length")
}

func VH_C07_nia2() {
	n := c07octets()
	ik := c07key("ik")
	count, bearer, dir := c07params()
	msg := vrt.Bytes("m", n)
	mac, err := NIA2(ik, count, bearer, dir, msg)
	vrt.Assert(err == nil && len(mac) == 4, "NIA2 returns a 4-octet MAC")
	vrt.Assert(c07mac(mac) == ref.EIA2(ik, count, bearer, dir, msg), "NIA2 = 128-EIA2 (AES-CMAC over COUNT|BEARER|DIR|0^26|msg, 32 msb)")
}

// ---- the same statements with the keystream generators abstracted as uninterpreted functions of (key, IV) per
// word (justified by C06: generators equal the standard ones, word i independent of the number of words requested).
// A deviation in IV construction, word count, padding or masking has a short model here.

func c07abstract() {
	vrt.UFSlice("github.com/free5gc/nas/security/snow3g.GetKeyStream", "SNOWKS", 2)
	vrt.UFSlice("github.com/free5gc/nas/zz_verifref.SnowKeystream", "SNOWKS", 2)
	vrt.UFSlice("github.com/free5gc/nas/security/zuc.Zuc", "ZUCKS", 2)
	vrt.UFSlice("github.com/free5gc/nas/zz_verifref.ZUCKeystream", "ZUCKS", 2)
	// GF(2^64) multiplication of 128-EIA1 (justified by VH_C07_mul64: mul = MUL64 at full width). Without this a
	// deviation in how the message blocks are formed leaves z3 with a disequality of two carry-less 64x64 multiplier
	// chains, which it does not decide; with it the disequality reduces to the blocks themselves.
	vrt.UF("github.com/free5gc/nas/security.mul", "GFMUL")
	vrt.UF("github.com/free5gc/nas/zz_verifref.MUL64", "GFMUL")
}

// the per-algorithm functions with a buffer LONGER than the declared bit length needs (a PDU sitting in a larger zeroed
// buffer): the MAC covers the first `length` bits only, so extra zero octets behind them (1, 7, 8, 9, 16; more at the thorough tier) change nothing
func VH_C07_nia_slack() {
	c0xFullDepth()
	bitss := []uint64{1, 8, 31, 32, 33, 63, 64, 65, 88}
	slacks := []int{1, 7, 8, 9, 16}
	if vrt.Thorough() {
		bitss = []uint64{1, 7, 8, 9, 31, 32, 33, 56, 63, 64, 65, 72, 88, 96, 127, 128, 129}
		slacks = []int{1, 2, 7, 8, 9, 15, 16, 17, 24}
	}
	length := bitss[vrt.Choose("bitsel", 0, len(bitss)-1)]
	slack := slacks[vrt.Choose("slacksel", 0, len(slacks)-1)]
	ik := c07key("ik")
	count, bearer, dir := c07params()
	n := int((length + 7) / 8)
	msg := vrt.Bytes("m", n)
	if length%8 != 0 {
		msg[n-1] &= byte(0xff) << (8 - length%8) // precondition: bits beyond length are zero
	}
	in := append([]byte{}, msg...)
	long := append(append([]byte{}, msg...), make([]byte, slack)...)
	if vrt.Bool("nia3") {
		mac, err := NIA3(ik, count, bearer, dir, long, uint32(length))
		vrt.Assert(err == nil && len(mac) == 4, "NIA3 returns a 4-octet MAC (buffer longer than the message)")
		vrt.Assert(c07mac(mac) == ref.EIA3(ik, count, bearer, dir, in, uint32(length)), "NIA3 = 128-EIA3 when the buffer is longer than the declared length")
		return
	}
	mac, err := NIA1(ik, count, bearer, uint32(dir), long, length)
	vrt.Assert(err == nil && len(mac) == 4, "NIA1 returns a 4-octet MAC (buffer longer than the message)")
	vrt.Assert(c07mac(mac) == ref.EIA1(ik, count, uint32(bearer), uint32(dir), in, length), "NIA1 = 128-EIA1 when the buffer is longer than the declared length")
}

func VH_C07_abs_nasmac()    { c07abstract(); VH_C07_nasmac() }
func VH_C07_abs_nia_slack() { c07abstract(); VH_C07_nia_slack() }
func VH_C07_abs_nia1_bits() { c07abstract(); VH_C07_nia1_bits() }
func VH_C07_abs_nia3_bits() { c07abstract(); VH_C07_nia3_bits() }

// Full-depth comparisons (real keystream generators on both sides): on the unchanged tree both sides normalise to
// the same term and nothing is asked of the solver. If they do not, a disequality through 33 cipher clocks is out
// of reach for z3, so those queries get a short timeout and end INCONCLUSIVE quickly; counterexamples for such
// deviations come from the one-step lemmas and the abs_ variants of the same harnesses.
func c0xFullDepth() { vrt.QueryTimeout(3000) }
