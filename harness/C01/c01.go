package nas

import (
	vrt "github.com/free5gc/nas/zz_verifrt"
)

// C01 (a): every byte string of length n through the three decode entry points: no panic, terminates.
func c01decodeAll(n int) {
	in := vrt.Bytes("in", n)
	switch vrt.Choose("entry", 0, 2) {
	case 0:
		m := NewMessage()
		_ = m.PlainNasDecode(&in)
	case 1:
		m := NewMessage()
		_ = m.GmmMessageDecode(&in)
	case 2:
		m := NewMessage()
		_ = m.GsmMessageDecode(&in)
	}
}

func VH_C01_short() {
	n := vrt.Choose("n", 0, 5)
	c01decodeAll(n)
}
