package nas

import (
	vrt "github.com/free5gc/nas/zz_verifrt"
)

// Elements that carry another NAS message (NAS message container 0x71 of SECURITY MODE COMPLETE, REGISTRATION REQUEST
// and SERVICE REQUEST; payload container of UL / DL NAS TRANSPORT): the outer layers are well formed, the carried
// octets are arbitrary - in particular every short string that is itself a 5GMM or 5GSM message. The decoder treats
// them as opaque; whatever else an entry point does with them must not panic or hang either.
func VH_C01_nested_message() {
	n := vrt.Choose("inner", 0, 6)
	inner := vrt.Bytes("x", n)
	var in []byte
	switch vrt.Choose("outer", 0, 4) {
	case 0:
		in = []byte{0x7e, 0x00, 0x5e, 0x71, 0, byte(n)}
	case 1:
		in = []byte{0x7e, 0x00, 0x41, 0x79, 0x00, 0x0d, 0x01, 0x02, 0xf8, 0x39, 0xf0, 0xff, 0, 0, 0, 0, 0, 0x47, 0x78, 0x71, 0, byte(n)}
	case 2:
		in = []byte{0x7e, 0x00, 0x4c, 0x10, 0x00, 0x07, 0xf4, 0x00, 0x40, 0x01, 0x02, 0x03, 0x04, 0x71, 0, byte(n)}
	case 3:
		in = []byte{0x7e, 0x00, 0x67, 0x01, 0, byte(n)}
	case 4:
		in = []byte{0x7e, 0x00, 0x68, 0x01, 0, byte(n)}
	}
	in = append(in, inner...)
	m := NewMessage()
	var err error
	if vrt.Bool("viaPlain") {
		err = m.PlainNasDecode(&in)
	} else {
		err = m.GmmMessageDecode(&in)
	}
	if err == nil {
		vrt.Reach("outer message accepted")
	}
}
