package nasConvert

import (
	"fmt"

	"github.com/free5gc/nas/nasType"
	"github.com/free5gc/openapi/models"
	vrt "github.com/free5gc/nas/zz_verifrt"
)

// C13: slice and area lists. Library encoders are checked with decoders written from TS 24.501
// (9.11.2.8 S-NSSAI, 9.11.3.37 NSSAI, 9.11.3.46 rejected NSSAI, 9.11.3.9 TAI list, 9.11.3.49 service area list,
// 9.11.3.30 LADN information); library decoders are run on encodings built from the same layouts.

func c13hex(n byte) byte {
	if n < 10 {
		return '0' + n
	}
	return 'a' + n - 10
}

func c13hexOf(b []byte) string {
	out := make([]byte, 0, 2*len(b))
	for _, x := range b {
		out = append(out, c13hex(x>>4), c13hex(x&15))
	}
	return string(out)
}

func c13digits(name string, n int) (string, []byte) {
	d := make([]byte, n)
	t := make([]byte, n)
	for i := range d {
		d[i] = vrt.U8(fmt.Sprintf("%s%d", name, i))
		vrt.Assume(d[i] <= 9)
		t[i] = '0' + d[i]
	}
	return string(t), d
}

type c13plmn struct {
	id  models.PlmnId
	oct [3]byte
}

func c13mkplmn(name string) c13plmn {
	mcc, m := c13digits(name+"mcc", 3)
	three := vrt.Bool(name + "mnc3")
	var p c13plmn
	if three {
		mnc, n := c13digits(name+"mnc", 3)
		p.id = models.PlmnId{Mcc: mcc, Mnc: mnc}
		p.oct = [3]byte{m[1]<<4 | m[0], n[2]<<4 | m[2], n[1]<<4 | n[0]}
	} else {
		mnc, n := c13digits(name+"mnc", 2)
		p.id = models.PlmnId{Mcc: mcc, Mnc: mnc}
		p.oct = [3]byte{m[1]<<4 | m[0], 0xf0 | m[2], n[1]<<4 | n[0]}
	}
	return p
}

// ---- S-NSSAI ----

func c13snssai(name string) (models.Snssai, []byte) { return c13snssaiCase(name, false) }

// c13snssaiCase: with mixed set, the SD text may use upper case for a..f (TS 29.571 pattern ^[A-Fa-f0-9]{6}$): one
// chosen digit position, or all of them, is written in upper case when it is a letter. Used by the single-entry
// harnesses (in lists it would multiply the paths of the hex decoder by 1.5 per digit).
func c13snssaiCase(name string, mixed bool) (models.Snssai, []byte) {
	sst := vrt.U8(name + "sst")
	if vrt.Bool(name + "hasSD") {
		sd := vrt.Bytes(name+"sd", 3)
		txt := []byte(c13hexOf(sd))
		if mixed {
			up := vrt.Choose(name+"upper", 0, 7) // 0..5: that position, 6: none, 7: all
			for i := range txt {
				if (up == i || up == 7) && txt[i] >= 'a' {
					txt[i] -= 'a' - 'A'
				}
			}
		}
		return models.Snssai{Sst: int32(sst), Sd: string(txt)}, []byte{sst, sd[0], sd[1], sd[2]}
	}
	return models.Snssai{Sst: int32(sst)}, []byte{sst}
}

func VH_C13_snssai_to_nas() {
	s, val := c13snssaiCase("", true)
	out := SnssaiToNas(s)
	vrt.Assert(len(out) == 1+len(val) && out[0] == byte(len(val)), "S-NSSAI: length octet then SST [SD]")
	vrt.Equal(out[1:], val, "S-NSSAI value = SST [SD]")
	// library decoder on the same layout
	var n nasType.SNSSAI
	n.Len = uint8(len(val))
	copy(n.Octet[:], val)
	back := SnssaiToModels(&n)
	wantSd := ""
	if len(val) == 4 {
		wantSd = c13hexOf(val[1:4])
	}
	vrt.Assert(back.Sst == s.Sst && back.Sd == wantSd, "SnssaiToModels recovers SST and SD (lower-case hex)")
}

func VH_C13_rejected_snssai() {
	s, val := c13snssaiCase("", true)
	cause := vrt.U8("cause") & 15
	out := RejectedSnssaiToNas(s, cause)
	vrt.Assert(len(out) == 1+len(val) && out[0] == byte(len(val))<<4|cause, "rejected S-NSSAI: length nibble | cause nibble")
	vrt.Equal(out[1:], val, "rejected S-NSSAI value = SST [SD]")
}

func VH_C13_rejected_nssai() {
	hi := 2
	if vrt.Thorough() {
		hi = 4
	}
	np, nt := vrt.Choose("inPlmn", 0, hi), vrt.Choose("inTa", 0, hi)
	var lp, lt []models.Snssai
	var want []byte
	for i := 0; i < np; i++ {
		s, val := c13snssai(fmt.Sprintf("p%d", i))
		lp = append(lp, s)
		want = append(want, byte(len(val))<<4|0) // cause 0000: not available in the current PLMN
		want = append(want, val...)
	}
	for i := 0; i < nt; i++ {
		s, val := c13snssai(fmt.Sprintf("t%d", i))
		lt = append(lt, s)
		want = append(want, byte(len(val))<<4|1) // cause 0001: not available in the current registration area
		want = append(want, val...)
	}
	r := RejectedNssaiToNas(lp, lt)
	vrt.Assert(int(r.Len) == len(want), "rejected NSSAI length = sum of entries")
	vrt.Equal(r.Buffer, want, "rejected NSSAI contents = entries in order with their cause")
}

// ---- requested NSSAI decoder on reference encodings ----

func VH_C13_requested_nssai_decode() {
	hi := 3
	if vrt.Thorough() {
		hi = 5
	}
	n := vrt.Choose("entries", 1, hi)
	var buf []byte
	type exp struct {
		sst, hsst     byte
		sd, hsd       string
		hasSd, hasH, hasHsd bool
	}
	var want []exp
	lens := []int{1, 2, 4, 5, 8}
	for i := 0; i < n; i++ {
		l := lens[vrt.Choose(fmt.Sprintf("kind%d", i), 0, 4)]
		v := vrt.Bytes(fmt.Sprintf("e%d", i), l)
		buf = append(buf, byte(l))
		buf = append(buf, v...)
		var e exp
		e.sst = v[0]
		switch l {
		case 2:
			e.hasH, e.hsst = true, v[1]
		case 4:
			e.hasSd, e.sd = true, c13hexOf(v[1:4])
		case 5:
			e.hasSd, e.sd, e.hasH, e.hsst = true, c13hexOf(v[1:4]), true, v[4]
		case 8:
			e.hasSd, e.sd, e.hasH, e.hsst, e.hasHsd, e.hsd = true, c13hexOf(v[1:4]), true, v[4], true, c13hexOf(v[5:8])
		}
		want = append(want, e)
	}
	nssai := &nasType.RequestedNSSAI{Iei: 0x2f, Len: uint8(len(buf)), Buffer: buf}
	got, err := RequestedNssaiToModels(nssai)
	vrt.Assert(err == nil && len(got) == n, "a well-formed requested NSSAI decodes to one entry per S-NSSAI")
	for i, e := range want {
		g := got[i]
		vrt.Assert(g.ServingSnssai != nil && g.ServingSnssai.Sst == int32(e.sst), "serving SST recovered")
		vrt.Assert(g.ServingSnssai.Sd == e.sd, "serving SD recovered (empty when absent)")
		if e.hasH {
			vrt.Assert(g.HomeSnssai != nil && g.HomeSnssai.Sst == int32(e.hsst) && g.HomeSnssai.Sd == e.hsd, "mapped HPLMN SST/SD recovered")
		} else {
			vrt.Assert(g.HomeSnssai == nil, "no mapped S-NSSAI when absent")
		}
	}
}

func VH_C13_requested_nssai_malformed() {
	// one entry with an illegal or truncated length after 0..1 good entries
	var buf []byte
	if vrt.Bool("prefixEntry") {
		buf = append(buf, 1, vrt.U8("sst0"))
	}
	l := vrt.U8("badLen")
	avail := vrt.Choose("avail", 0, 9)
	buf = append(buf, l)
	buf = append(buf, vrt.Bytes("v", avail)...)
	legal := l == 1 || l == 2 || l == 4 || l == 5 || l == 8
	vrt.Assume(!legal || int(l) > avail)
	nssai := &nasType.RequestedNSSAI{Iei: 0x2f, Len: uint8(len(buf)), Buffer: buf}
	_, err := RequestedNssaiToModels(nssai)
	vrt.Assert(err != nil, "an illegal S-NSSAI length or a truncated entry is an error")
}

// ---- TAI list ----

func VH_C13_tai_list() {
	hi := 3
	if vrt.Thorough() {
		hi = 6
	}
	n := vrt.Choose("n", 1, hi)
	p0 := c13mkplmn("a")
	p1 := c13mkplmn("b")
	vrt.Assume(p0.id.Mcc != p1.id.Mcc || p0.id.Mnc != p1.id.Mnc) // two different PLMNs
	var list []models.Tai
	var tacs [][]byte
	var plmns []c13plmn
	allSame := true
	for i := 0; i < n; i++ {
		tac := vrt.Bytes(fmt.Sprintf("tac%d", i), 3)
		p := p0
		// every entry independently in PLMN a or b: every pattern (a,a,b / a,b,a / b,a,a / ...) is a path
		if vrt.Choose(fmt.Sprintf("plmnOf%d", i), 0, 1) == 1 {
			p = p1
		}
		id := p.id
		list = append(list, models.Tai{PlmnId: &id, Tac: c13hexOf(tac)})
		tacs = append(tacs, tac)
		plmns = append(plmns, p)
		if i > 0 && plmns[i].oct != plmns[0].oct {
			allSame = false
		}
	}
	out := TaiListToNas(list)
	// decoder per 9.11.3.9
	vrt.Assert(len(out) >= 1, "TAI list has a header octet")
	typ := (out[0] >> 5) & 3
	cnt := int(out[0]&0x1f) + 1
	vrt.Assert(out[0]&0x80 == 0, "TAI list spare bit is zero")
	vrt.Assert(cnt == n, "number of elements field = entries - 1")
	if typ == 0 {
		vrt.Assert(allSame, "type of list 00 only when every TAI is in the same PLMN")
		vrt.Assert(len(out) == 4+3*n, "type 00: header, PLMN, n TACs")
		for i := 0; i < n; i++ {
			// a decoder gives every TAI of a type-00 list the one PLMN of the list
			vrt.Assert(out[1] == plmns[i].oct[0] && out[2] == plmns[i].oct[1] && out[3] == plmns[i].oct[2], "type 00: the list PLMN is the PLMN of every TAI")
			vrt.Equal(out[4+3*i:7+3*i], tacs[i], "type 00: TACs in order")
		}
	} else {
		vrt.Assert(typ == 2, "several PLMNs: type of list 10")
		vrt.Assert(len(out) == 1+6*n, "type 10: header, n (PLMN, TAC) pairs")
		for i := 0; i < n; i++ {
			vrt.Equal(out[1+6*i:4+6*i], plmns[i].oct[:], "type 10: PLMN of each TAI")
			vrt.Equal(out[4+6*i:7+6*i], tacs[i], "type 10: TAC of each TAI")
		}
	}
}

// ---- service area list ----

func VH_C13_service_area_list() {
	hi := 3
	if vrt.Thorough() {
		hi = 5
	}
	na := vrt.Choose("areas", 1, 2)
	p := c13mkplmn("")
	allowed := vrt.Bool("allowed")
	var areas []models.Area
	var all [][]byte
	for a := 0; a < na; a++ {
		nt := vrt.Choose(fmt.Sprintf("tacs%d", a), 1, hi)
		var ts []string
		for i := 0; i < nt; i++ {
			tac := vrt.Bytes(fmt.Sprintf("tac%d_%d", a, i), 3)
			ts = append(ts, c13hexOf(tac))
			all = append(all, tac)
		}
		areas = append(areas, models.Area{Tacs: ts})
	}
	rt := models.RestrictionType_NOT_ALLOWED_AREAS
	if allowed {
		rt = models.RestrictionType_ALLOWED_AREAS
	}
	// the subscription limits carried in the same structure are not part of the encoding: any values
	out := PartialServiceAreaListToNas(p.id, models.ServiceAreaRestriction{RestrictionType: rt, Areas: areas,
		MaxNumOfTAs: vrt.I32("maxTAs"), MaxNumOfTAsForNotAllowedAreas: vrt.I32("maxTAsNotAllowed")})
	// decoder per 9.11.3.49, partial service area list type 00
	vrt.Assert(len(out) == 4+3*len(all), "service area list: header, PLMN, one 3-octet TAC per TAC")
	vrt.Assert((out[0]>>7 == 0) == allowed, "allowed type bit: 0 = allowed area, 1 = non-allowed area")
	vrt.Assert((out[0]>>5)&3 == 0, "type of list 00")
	vrt.Assert(int(out[0]&0x1f)+1 == len(all), "number of elements field = number of TACs - 1")
	vrt.Equal(out[1:4], p.oct[:], "service area list PLMN octets")
	for i, t := range all {
		vrt.Equal(out[4+3*i:7+3*i], t, "service area list TACs in order")
	}
}

// ---- LADN ----

func VH_C13_ladn() {
	dl := vrt.Choose("dnnLen", 0, 6)
	dnn := vrt.Str("dnn", dl)
	nt := vrt.Choose("tais", 1, 2)
	p := c13mkplmn("")
	var tais []models.Tai
	for i := 0; i < nt; i++ {
		id := p.id
		tais = append(tais, models.Tai{PlmnId: &id, Tac: c13hexOf(vrt.Bytes(fmt.Sprintf("tac%d", i), 3))})
	}
	out := LadnToNas(dnn, tais)
	tl := TaiListToNas(tais)
	vrt.Assert(len(out) == 1+dl+1+len(tl), "LADN: DNN length, DNN, TAI list length, TAI list")
	vrt.Assert(int(out[0]) == dl && string(out[1:1+dl]) == dnn, "LADN DNN is length-prefixed")
	vrt.Assert(int(out[1+dl]) == len(tl), "LADN TAI list is length-prefixed")
	vrt.Equal(out[2+dl:], tl, "LADN TAI list contents")
}

func VH_C13_ladn_indication_decode() {
	n := vrt.Choose("entries", 0, 3)
	var buf []byte
	var want []string
	for i := 0; i < n; i++ {
		l := vrt.Choose(fmt.Sprintf("len%d", i), 0, 3)
		d := vrt.Str(fmt.Sprintf("d%d", i), l)
		buf = append(buf, byte(l))
		buf = append(buf, d...)
		want = append(want, d)
	}
	got := LadnToModels(buf)
	vrt.Assert(len(got) == n, "LADN indication: one DNN per entry")
	for i := range want {
		vrt.Assert(got[i] == want[i], "LADN indication: DNN values recovered in order")
	}
}

// Two encodings alive at once: the octets returned for one list are the caller's; encoding another list afterwards must
// not change them, and overwriting them must not change what the next call returns. All list encoders.
func VH_C13_results_held() {
	which := vrt.Choose("encoder", 0, 4)
	var pa c13plmn
	if which <= 1 {
		pa = c13mkplmn("a")
	}
	pb := pa
	mk := func(tag string, n int, p c13plmn) []models.Tai {
		var l []models.Tai
		for i := 0; i < n; i++ {
			id := p.id
			l = append(l, models.Tai{PlmnId: &id, Tac: c13hexOf(vrt.Bytes(fmt.Sprintf("%stac%d", tag, i), 3))})
		}
		return l
	}
	var la, lb []models.Tai
	var sa, sb models.Snssai
	if which <= 1 {
		la, lb = mk("x", vrt.Choose("na", 1, 2), pa), mk("y", vrt.Choose("nb", 1, 3), pb)
	} else {
		sa, _ = c13snssai("sa")
		sb, _ = c13snssai("sb")
	}
	enc := func(first bool) []uint8 {
		switch which {
		case 0:
			if first {
				return TaiListToNas(la)
			}
			return TaiListToNas(lb)
		case 1:
			if first {
				return LadnToNas("ab", la)
			}
			return LadnToNas("cde", lb)
		case 2:
			if first {
				return SnssaiToNas(sa)
			}
			return SnssaiToNas(sb)
		case 3:
			if first {
				return RejectedSnssaiToNas(sa, 1)
			}
			return RejectedSnssaiToNas(sb, 0)
		default:
			if first {
				r := RejectedNssaiToNas([]models.Snssai{sa}, nil)
				return r.Buffer
			}
			r := RejectedNssaiToNas([]models.Snssai{sb}, []models.Snssai{sa})
			return r.Buffer
		}
	}
	out1 := enc(true)
	keep1 := append([]uint8{}, out1...)
	out2 := enc(false)
	keep2 := append([]uint8{}, out2...)
	vrt.Equal(out1, keep1, "an encoding the caller holds is not changed by encoding another list")
	for i := range out1 {
		out1[i] = ^out1[i] // the caller reuses its buffer
	}
	vrt.Equal(out2, keep2, "two encodings share no memory")
	again := enc(true)
	vrt.Equal(again, keep1, "encoding the same list again gives the same octets, whatever happened to the earlier result")
	vrt.Equal(out2, keep2, "the second encoding is not changed by a third call")
}
