package nasConvert

import (
	"github.com/free5gc/nas/nasType"
	"github.com/free5gc/openapi/models"
	vrt "github.com/free5gc/nas/zz_verifrt"
)

func VH_C19_conversions_footprint() {
	buf := vrt.Bytes("b", 11)
	buf[0] = 0xf2
	nssai := &nasType.RequestedNSSAI{Iei: 0x2f, Len: 2, Buffer: []byte{1, vrt.U8("sst")}}
	psi := vrt.Bytes("psi", 2)
	pco := NewProtocolConfigurationOptions()
	pcoBytes := []byte{0x80, vrt.U8("i0"), vrt.U8("i1"), 1, vrt.U8("c")}
	vrt.FootprintBegin()
	vrt.Owned(pco)
	_, _, _ = GutiToStringWithError(buf)
	_, _, _ = SuciToStringWithError(buf)
	_, _ = PeiToStringWithError(buf)
	_ = PlmnIDToString(buf[1:4])
	_ = PlmnIDToNas(models.PlmnId{Mcc: "208", Mnc: "93"})
	_, _ = RequestedNssaiToModels(nssai)
	_ = PSIToBuf(PSIToBooleanArray(psi))
	_ = GPRSTimer3ToNas(int(vrt.U16("t")))
	_ = AmfIdToModels(vrt.U8("r"), vrt.U16("s")&0x3ff, vrt.U8("p")&0x3f)
	_ = SnssaiToNas(models.Snssai{Sst: 1, Sd: "010203"})
	_ = pco.UnMarshal(pcoBytes)
	_ = pco.Marshal()
	_ = FullNetworkNameToNas("free5GC")
	_ = EncodeLocalTimeZoneToNas("+08:00")
	vrt.FootprintEnd("conversion helpers write only their receiver and fresh memory")
}

// serialisers and read-only converters on shared (not owned) values: a parsed PCO list, PSI octets, an NSSAI
// element: nothing reachable from them may be written, not even with the value that is already there
func VH_C19_shared_serialisers_footprint() {
	pco := NewProtocolConfigurationOptions()
	_ = pco.UnMarshal([]byte{0x80, vrt.U8("i0"), vrt.U8("i1"), 2, vrt.U8("c0"), vrt.U8("c1"), vrt.U8("j0"), vrt.U8("j1"), 0})
	nssai := &nasType.RequestedNSSAI{Iei: 0x2f, Len: 5, Buffer: []byte{4, vrt.U8("sst"), vrt.U8("sd0"), vrt.U8("sd1"), vrt.U8("sd2")}}
	psi := vrt.Bytes("psi", 2)
	vrt.FootprintBegin()
	_ = pco.Marshal()
	_ = pco.Marshal()
	_, _ = RequestedNssaiToModels(nssai)
	_ = PSIToBooleanArray(psi)
	vrt.FootprintEnd("serialising or converting a shared value writes nothing reachable from it")
}
