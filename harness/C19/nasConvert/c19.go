package nasConvert

import (
	"github.com/free5gc/nas/nasType"
	"github.com/free5gc/openapi/models"
	vrt "github.com/free5gc/nas/zz_verifrt"
)

func VH_C19_conversions_footprint() {
	buf := vrt.Bytes("b", 11)
	buf[0] = 0xf2
	nssai := &nasType.RequestedNSSAI{Iei: 0x2f, Len: 2, Buffer: []byte{1, vrt.U8("sst")}}
	psi := vrt.Bytes("psi", 2)
	pco := NewProtocolConfigurationOptions()
	pcoBytes := []byte{0x80, vrt.U8("i0"), vrt.U8("i1"), 1, vrt.U8("c")}
	vrt.FootprintBegin()
	vrt.Owned(pco)
	_, _, _ = GutiToStringWithError(buf)
	_, _, _ = SuciToStringWithError(buf)
	_, _ = PeiToStringWithError(buf)
	_ = PlmnIDToString(buf[1:4])
	_ = PlmnIDToNas(models.PlmnId{Mcc: "208", Mnc: "93"})
	_, _ = RequestedNssaiToModels(nssai)
	_ = PSIToBuf(PSIToBooleanArray(psi))
	_ = GPRSTimer3ToNas(int(vrt.U16("t")))
	_ = AmfIdToModels(vrt.U8("r"), vrt.U16("s")&0x3ff, vrt.U8("p")&0x3f)
	_ = SnssaiToNas(models.Snssai{Sst: 1, Sd: "010203"})
	_ = pco.UnMarshal(pcoBytes)
	_ = pco.Marshal()
	_ = FullNetworkNameToNas("free5GC")
	_ = EncodeLocalTimeZoneToNas("+08:00")
	vrt.FootprintEnd("conversion helpers write only their receiver and fresh memory")
}
