package uePolicyContainer

import (
	vrt "github.com/free5gc/nas/zz_verifrt"
)

func VH_C19_uepolicy_footprint() {
	g := NewGenerator(1, 8)
	other := NewGenerator(1, 8)
	in := vrt.Bytes("in", 6)
	u := NewUePolDeliverySer()
	vrt.FootprintBegin()
	vrt.Owned(g)
	vrt.Owned(u)
	id, _ := g.Allocate()
	g.FreeID(id)
	_ = u.UePolDeliverySerDecode(in)
	vrt.FootprintEnd("allocator and UE policy decoder write only their receiver")
	_, err := other.Allocate()
	vrt.Assert(err == nil, "another allocator is unaffected")
}
