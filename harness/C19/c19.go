package nas

import (
	"bytes"

	"github.com/free5gc/nas/nasMessage"
	"github.com/free5gc/nas/nasType"
	vrt "github.com/free5gc/nas/zz_verifrt"
)

// C19: footprint confinement. Between FootprintBegin and FootprintEnd every store must hit an object allocated
// inside the region or one declared Owned (reachable from the call's own receiver / output arguments); no store may
// hit package-level state. Disjoint footprints on distinct values => calls on distinct values commute and cannot race.

func c19registrationRequestBytes(t int) []byte {
	in := vrt.Bytes("in", 3+1+2+4+t)
	vrt.Assume(in[0] == 0x7e && in[2] == MsgTypeRegistrationRequest)
	return in
}

func VH_C19_decode_footprint() {
	t := vrt.Choose("tail", 0, 3)
	in := c19registrationRequestBytes(t)
	m := NewMessage()
	vrt.FootprintBegin()
	vrt.Owned(m) // the receiver; the input bytes are NOT owned: decoding must not write them
	_ = m.PlainNasDecode(&in)
	vrt.FootprintEnd("decode writes only the message it is given and fresh memory")
}

func VH_C19_decode_gsm_footprint() {
	n := vrt.Choose("n", 4, 9)
	in := vrt.Bytes("in", n)
	vrt.Assume(in[0] == 0x2e)
	m := NewMessage()
	vrt.FootprintBegin()
	vrt.Owned(m)
	_ = m.PlainNasDecode(&in)
	vrt.FootprintEnd("5GSM decode writes only the message it is given and fresh memory")
}

// encoding and getters on a shared (not owned) decoded message: nothing reachable from it may be written
func VH_C19_shared_message_readers() {
	a := nasMessage.NewAuthenticationRequest(0)
	a.ExtendedProtocolDiscriminator.Octet = 0x7e
	a.AuthenticationRequestMessageIdentity.Octet = MsgTypeAuthenticationRequest
	a.ABBA.Len = 2
	a.ABBA.Buffer = vrt.Bytes("abba", 2)
	a.AuthenticationParameterRAND = &nasType.AuthenticationParameterRAND{Iei: 0x21}
	copy(a.AuthenticationParameterRAND.Octet[:], vrt.Bytes("rand", 16))
	msg := NewMessage()
	msg.GmmMessage = NewGmmMessage()
	msg.GmmMessage.AuthenticationRequest = a
	msg.GmmHeader.SetMessageType(MsgTypeAuthenticationRequest)
	msg.GmmHeader.SetExtendedProtocolDiscriminator(0x7e)
	vrt.FootprintBegin()
	// msg is deliberately not Owned: these calls only read it
	out, _ := msg.PlainNasEncode()
	buf := new(bytes.Buffer)
	_ = a.EncodeAuthenticationRequest(buf)
	_ = a.ABBA.GetABBAContents()
	_ = a.AuthenticationParameterRAND.GetRANDValue()
	_ = a.GetNasKeySetIdentifiler()
	_ = msg.GmmHeader.GetMessageType()
	_ = out
	vrt.FootprintEnd("encoding and getters on a shared message write nothing reachable from it")
}
