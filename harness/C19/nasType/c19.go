package nasType

import (
	vrt "github.com/free5gc/nas/zz_verifrt"
)

func VH_C19_accessors_footprint() {
	var g GUTI5G
	copy(g.Octet[:], vrt.Bytes("o", 11))
	var other GUTI5G
	copy(other.Octet[:], vrt.Bytes("x", 11))
	snap := other
	vrt.FootprintBegin()
	vrt.Owned(&g)
	g.SetAMFSetID(vrt.U16("set"))
	g.SetAMFPointer(vrt.U8("ptr"))
	g.SetTMSI5G([4]uint8{1, 2, 3, 4})
	_ = g.GetAMFSetID()
	_ = other.GetAMFSetID() // reading a shared element
	_ = other.GetTMSI5G()
	vrt.FootprintEnd("accessors write only their receiver")
	vrt.Assert(other == snap, "another element is unaffected")
}

func VH_C19_qos_footprint() {
	rules := QoSRules{{Identifier: vrt.U8("id"), Operation: OperationCodeCreateNewQoSRule, Precedence: vrt.U8("p"), QFI: vrt.U8("q") & 63,
		PacketFilterList: PacketFilterList{{Identifier: 1, Direction: PacketFilterDirectionBidirectional, Components: PacketFilterComponentList{&PacketFilterMatchAll{}, &PacketFilterSingleRemotePort{Value: vrt.U16("port")}}}}}}
	in := []byte{vrt.U8("qfi"), 1 << 5, 0x41, 0x01, 1, vrt.U8("5qi")}
	var d QoSFlowDescs
	vrt.FootprintBegin()
	vrt.Owned(&d)
	out, _ := rules.MarshalBinary() // rules not owned: marshalling only reads them
	_ = out
	_ = d.UnmarshalBinary(in) // input not owned
	vrt.FootprintEnd("QoS marshal/unmarshal write only their receiver and fresh memory")
}
