package nasType

import (
	vrt "github.com/free5gc/nas/zz_verifrt"
)

func VH_C19_accessors_footprint() {
	var g GUTI5G
	copy(g.Octet[:], vrt.Bytes("o", 11))
	var other GUTI5G
	copy(other.Octet[:], vrt.Bytes("x", 11))
	snap := other
	vrt.FootprintBegin()
	vrt.Owned(&g)
	g.SetAMFSetID(vrt.U16("set"))
	g.SetAMFPointer(vrt.U8("ptr"))
	g.SetTMSI5G([4]uint8{1, 2, 3, 4})
	_ = g.GetAMFSetID()
	_ = other.GetAMFSetID() // reading a shared element
	_ = other.GetTMSI5G()
	vrt.FootprintEnd("accessors write only their receiver")
	vrt.Assert(other == snap, "another element is unaffected")
}

func VH_C19_qos_footprint() {
	rules := QoSRules{{Identifier: vrt.U8("id"), Operation: OperationCodeCreateNewQoSRule, Precedence: vrt.U8("p"), QFI: vrt.U8("q") & 63,
		PacketFilterList: PacketFilterList{{Identifier: 1, Direction: PacketFilterDirectionBidirectional, Components: PacketFilterComponentList{&PacketFilterMatchAll{}, &PacketFilterSingleRemotePort{Value: vrt.U16("port")}}}}}}
	in := []byte{vrt.U8("qfi"), 1 << 5, 0x41, 0x01, 1, vrt.U8("5qi")}
	var d QoSFlowDescs
	vrt.FootprintBegin()
	vrt.Owned(&d)
	out, _ := rules.MarshalBinary() // rules not owned: marshalling only reads them
	_ = out
	_ = d.UnmarshalBinary(in) // input not owned
	vrt.FootprintEnd("QoS marshal/unmarshal write only their receiver and fresh memory")
}

// readers of a shared decoded element: nothing is owned by the calls, so every store to pre-existing memory counts
// (also one that is undone before the call returns - two concurrent readers would race on it)
func VH_C19_identity_readers_footprint() {
	kind := vrt.Choose("kind", 0, 5)
	n := 13
	first := byte(0x01) // SUCI, SUPI format IMSI
	switch kind {
	case 1:
		first = 0x11 // SUCI, NAI
	case 2:
		first, n = 0xf2, 11 // 5G-GUTI
	case 3:
		first, n = 0x03|vrt.U8("d1")<<4, 8 // IMEI
	case 4:
		first, n = 0xf4, 7 // 5G-S-TMSI
	case 5:
		first, n = 0x05|vrt.U8("d1")<<4, 9 // IMEISV
	}
	buf := vrt.Bytes("b", n)
	buf[0] = first
	if kind == 0 && vrt.Bool("nullScheme") {
		buf[6] = 0
	}
	a := &MobileIdentity5GS{Len: uint16(n), Buffer: buf}
	vrt.FootprintBegin()
	_, _ = a.GetTypeOfIdentity()
	_ = a.GetSUCI()
	_, _, _ = a.GetMobileIdentity()
	_ = a.GetPlmnID()
	_ = a.Get5GGUTI()
	_ = a.Get5GTMSI()
	_ = a.GetIMEI()
	_ = a.GetIMEISV()
	_, _, _ = a.Get5GSTMSI()
	_ = a.GetMobileIdentity5GSContents()
	vrt.FootprintEnd("text getters of a shared mobile identity only read it")
}

// QoS serialisers on shared (not owned) rule and flow-description lists
func VH_C19_shared_qos_serialisers_footprint() {
	rules := QoSRules{{Identifier: vrt.U8("id"), Operation: OperationCodeCreateNewQoSRule, Precedence: vrt.U8("p"), QFI: vrt.U8("q") & 63,
		PacketFilterList: PacketFilterList{{Identifier: 1, Direction: PacketFilterDirectionBidirectional, Components: PacketFilterComponentList{&PacketFilterMatchAll{}, &PacketFilterSingleRemotePort{Value: vrt.U16("port")}}}}}}
	descs := QoSFlowDescs{{QFI: vrt.U8("dq") & 63, OperationCode: OperationCodeCreateNewQoSFlowDescription, Parameters: QoSFlowParameterList{&QoSFlow5QI{FiveQI: vrt.U8("5qi")}}}}
	vrt.FootprintBegin()
	_, _ = rules.MarshalBinary()
	_, _ = descs.MarshalBinary()
	_, _ = rules.MarshalBinary()
	vrt.FootprintEnd("QoS serialisers write nothing reachable from the lists they serialise")
}
