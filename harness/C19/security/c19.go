package security

import (
	vrt "github.com/free5gc/nas/zz_verifrt"
)

func VH_C19_cipher_footprint() {
	n := vrt.Choose("n", 0, 9)
	alg := uint8(vrt.Choose("alg", 0, 3))
	var k [16]byte
	copy(k[:], vrt.Bytes("k", 16))
	p := vrt.Bytes("p", n)
	vrt.FootprintBegin()
	vrt.Owned(p) // ciphering is in place: the payload is the call's own output
	_ = NASEncrypt(alg, k, vrt.U32("count"), vrt.U8("bearer")&31, vrt.U8("dir")&1, p)
	vrt.FootprintEnd("NASEncrypt writes only its payload and fresh memory")
}

func VH_C19_mac_footprint() {
	n := vrt.Choose("n", 0, 9)
	alg := uint8(vrt.Choose("alg", 0, 3))
	var k [16]byte
	copy(k[:], vrt.Bytes("k", 16))
	// the message is a window of a larger buffer (PDUs of several goroutines carved back to back out of one arena):
	// the octets behind it belong to somebody else
	spare := vrt.Choose("spare", 0, 9)
	buf := vrt.Bytes("m", n+spare)
	m := buf[:n]
	vrt.FootprintBegin()
	// nothing owned: MAC calculation only reads key and message
	_, _ = NASMacCalculate(alg, k, vrt.U32("count"), vrt.U8("bearer")&31, vrt.U8("dir")&1, m)
	vrt.FootprintEnd("NASMacCalculate writes only fresh memory")
}

func VH_C19_count_footprint() {
	c := &Count{}
	other := &Count{}
	other.Set(vrt.U16("o"), vrt.U8("s"))
	before := other.Get()
	vrt.FootprintBegin()
	vrt.Owned(c)
	c.Set(vrt.U16("o2"), vrt.U8("s2"))
	c.AddOne()
	_ = c.Get()
	vrt.FootprintEnd("Count methods write only their receiver")
	vrt.Assert(other.Get() == before, "another counter is unaffected")
}
