package nasType

import (
	"fmt"
	"net"

	vrt "github.com/free5gc/nas/zz_verifrt"
)

// C15: QoS rules (TS 24.501 9.11.4.13) and QoS flow descriptions (9.11.4.12).

func c15n() int {
	if vrt.Thorough() {
		return vrt.Choose("n", 0, 11)
	}
	return vrt.Choose("n", 0, 8)
}

// (a) total parsers
func VH_C15_rules_parse_any() {
	b := vrt.Bytes("b", c15n())
	var q QoSRules
	_ = q.UnmarshalBinary(b)
}

func VH_C15_descs_parse_any() {
	b := vrt.Bytes("b", c15n())
	var q QoSFlowDescs
	_ = q.UnmarshalBinary(b)
}

// unknown identifiers are errors
func VH_C15_unknown_identifiers() {
	// one flow description with one parameter of unknown identifier
	id := vrt.U8("pid")
	vrt.Assume(id == 0 || id > 7)
	l := vrt.Choose("plen", 0, 3)
	b := []byte{vrt.U8("qfi"), vrt.U8("op"), 0x41, id, byte(l)}
	b = append(b, vrt.Bytes("pv", l)...)
	var d QoSFlowDescs
	vrt.Assert(d.UnmarshalBinary(b) != nil, "an unknown QoS flow parameter identifier is an error")
	// one rule with one packet filter with one component of unknown type
	ct := vrt.U8("ctype")
	known := false
	for _, k := range []uint8{0x01, 0x10, 0x11, 0x30, 0x40, 0x41, 0x50, 0x51, 0x60, 0x70, 0x80, 0x81, 0x82, 0x83, 0x84, 0x85, 0x86, 0x87} {
		if ct == k {
			known = true
		}
	}
	vrt.Assume(!known)
	r := []byte{1, 0, 6, 1<<5 | 1, 0x11, 1, ct, 0xff, 0x01}
	var q QoSRules
	vrt.Assert(q.UnmarshalBinary(r) != nil, "an unknown packet filter component type is an error")
}

// component factory: the component with symbolic values and its encoding per Table 9.11.4.13.1
func c15comp(nm string, kind int) (PacketFilterComponent, []byte) {
	b := func(k string) byte { return vrt.U8(nm + k) }
	u16 := func(k string) uint16 { return vrt.U16(nm + k) }
	switch kind {
	case 0:
		return &PacketFilterMatchAll{}, []byte{0x01}
	case 1, 2:
		a := vrt.Bytes(nm+"addr", 4)
		m := vrt.Bytes(nm+"mask", 4)
		enc := append(append([]byte{0x10}, a...), m...)
		if kind == 1 {
			return &PacketFilterIPv4RemoteAddress{Address: net.IP(append([]byte{}, a...)), Mask: net.IPMask(append([]byte{}, m...))}, enc
		}
		enc[0] = 0x11
		return &PacketFilterIPv4LocalAddress{Address: net.IP(append([]byte{}, a...)), Mask: net.IPMask(append([]byte{}, m...))}, enc
	case 3:
		v := b("proto")
		return &PacketFilterProtocolIdentifier{Value: v}, []byte{0x30, v}
	case 4:
		v := u16("port")
		return &PacketFilterSingleLocalPort{Value: v}, []byte{0x40, byte(v >> 8), byte(v)}
	case 5:
		lo, hi := u16("lo"), u16("hi")
		return &PacketFilterLocalPortRange{LowLimit: lo, HighLimit: hi}, []byte{0x41, byte(lo >> 8), byte(lo), byte(hi >> 8), byte(hi)}
	case 6:
		v := u16("port")
		return &PacketFilterSingleRemotePort{Value: v}, []byte{0x50, byte(v >> 8), byte(v)}
	case 7:
		lo, hi := u16("lo"), u16("hi")
		return &PacketFilterRemotePortRange{LowLimit: lo, HighLimit: hi}, []byte{0x51, byte(lo >> 8), byte(lo), byte(hi >> 8), byte(hi)}
	case 8:
		v := vrt.U32(nm + "spi")
		return &PacketFilterSecurityParameterIndex{Index: v}, []byte{0x60, byte(v >> 24), byte(v >> 16), byte(v >> 8), byte(v)}
	case 9:
		c, m := b("class"), b("cmask")
		return &PacketFilterServiceClass{Class: c, Mask: m}, []byte{0x70, c, m}
	case 10:
		v := vrt.U32(nm+"label") & 0xfffff // 20-bit flow label
		return &PacketFilterFlowLabel{Label: v}, []byte{0x80, byte(v >> 16), byte(v >> 8), byte(v)}
	case 11, 12:
		mac := vrt.Bytes(nm+"mac", 6)
		enc := append([]byte{0x81}, mac...)
		if kind == 11 {
			return &PacketFilterDestinationMACAddress{MAC: net.HardwareAddr(append([]byte{}, mac...))}, enc
		}
		enc[0] = 0x82
		return &PacketFilterSourceMACAddress{MAC: net.HardwareAddr(append([]byte{}, mac...))}, enc
	case 13:
		v := u16("vid")
		return &PacketFilterCTagVID{VID: v}, []byte{0x83, byte(v >> 8), byte(v)}
	case 14:
		v := u16("vid")
		return &PacketFilterSTagVID{VID: v}, []byte{0x84, byte(v >> 8), byte(v)}
	case 15:
		v := b("pcp")
		return &PacketFilterCTagPCPDEI{Value: v}, []byte{0x85, v}
	case 16:
		v := b("pcp")
		return &PacketFilterSTagPCPDEI{Value: v}, []byte{0x86, v}
	default:
		v := u16("ethertype")
		return &PacketFilterEtherType{EtherType: v}, []byte{0x87, byte(v >> 8), byte(v)}
	}
}

// c15rule builds one symbolic rule and its reference encoding.
func c15rule(nm string, op QoSRuleOperationCode, kinds [][]int) (QoSRule, []byte) {
	var r QoSRule
	r.Identifier = vrt.U8(nm + "id")
	r.Operation = op
	r.DQR = vrt.Bool(nm + "dqr")
	r.Precedence = vrt.U8(nm + "prec")
	r.Segregation = vrt.Bool(nm + "seg")
	r.QFI = vrt.U8(nm+"qfi") & 63
	var content []byte
	hdr := uint8(op)<<5 | uint8(len(kinds))
	if r.DQR {
		hdr |= 1 << 4
	}
	content = append(content, hdr)
	for i, ks := range kinds {
		pfn := fmt.Sprintf("%spf%d", nm, i)
		var pf PacketFilter
		pf.Identifier = vrt.U8(pfn+"id") & 15
		if op == OperationCodeModifyExistingQoSRuleAndDeletePacketFilters {
			// delete: only the packet filter identifiers are sent
			content = append(content, pf.Identifier)
			r.PacketFilterList = append(r.PacketFilterList, pf)
			continue
		}
		pf.Direction = PacketFilterDirection(vrt.U8(pfn+"dir") & 3)
		var comps []byte
		for j, k := range ks {
			c, enc := c15comp(fmt.Sprintf("%sc%d", pfn, j), k)
			pf.Components = append(pf.Components, c)
			comps = append(comps, enc...)
		}
		content = append(content, uint8(pf.Direction)<<4|pf.Identifier, uint8(len(comps)))
		content = append(content, comps...)
		r.PacketFilterList = append(r.PacketFilterList, pf)
	}
	if len(kinds) == 0 && vrt.Bool(nm+"emptyNotNil") {
		r.PacketFilterList = PacketFilterList{} // no filters as an empty, non-nil list: same encoding as nil
	}
	qfiOctet := r.QFI
	if r.Segregation {
		qfiOctet |= 1 << 6
	}
	content = append(content, r.Precedence, qfiOctet)
	enc := []byte{r.Identifier, byte(len(content) >> 8), byte(len(content))}
	return r, append(enc, content...)
}

func c15checkRules(rules QoSRules, want []byte) {
	out, err := rules.MarshalBinary()
	vrt.Assert(err == nil, "marshalling a well-formed rule list succeeds")
	vrt.Equal(out, want, "serialised QoS rules follow TS 24.501 9.11.4.13 (id, length, op|DQR|count, filters, precedence, segregation|QFI)")
	var back QoSRules
	vrt.Assert(back.UnmarshalBinary(out) == nil, "parsing the serialisation succeeds")
	vrt.Assert(len(back) == len(rules), "same number of rules")
	for i := range rules {
		a, b := rules[i], back[i]
		vrt.Assert(a.Identifier == b.Identifier && a.Operation == b.Operation && a.DQR == b.DQR && a.Precedence == b.Precedence && a.Segregation == b.Segregation && a.QFI == b.QFI, "rule header fields round-trip")
		vrt.Assert(len(a.PacketFilterList) == len(b.PacketFilterList), "same number of packet filters")
		for j := range a.PacketFilterList {
			pa, pb := a.PacketFilterList[j], b.PacketFilterList[j]
			vrt.Assert(pa.Identifier == pb.Identifier && pa.Direction == pb.Direction, "packet filter identifier and direction round-trip")
			vrt.Equal(pb.Components, pa.Components, "packet filter components round-trip")
		}
	}
}

// one rule: every operation x 0/1/2 filters x every component kind
func VH_C15_rule_single() {
	op := QoSRuleOperationCode(vrt.Choose("op", 1, 6))
	nf := vrt.Choose("filters", 0, 2)
	var kinds [][]int
	if nf >= 1 {
		k := vrt.Choose("kind", 0, 17)
		kinds = append(kinds, []int{k})
		if nf == 2 {
			kinds = append(kinds, []int{(k + 7) % 18, (k + 11) % 18})
		}
	}
	r, enc := c15rule("r0", op, kinds)
	c15checkRules(QoSRules{r}, enc)
}

// two rules in one list
func VH_C15_rule_pair() {
	op0 := QoSRuleOperationCode(vrt.Choose("op0", 1, 6))
	op1 := QoSRuleOperationCode(vrt.Choose("op1", 1, 6))
	k := vrt.Choose("kind", 0, 17)
	r0, e0 := c15rule("r0", op0, [][]int{{k}})
	var k1 [][]int
	if vrt.Bool("r1filter") {
		k1 = [][]int{{(k + 5) % 18}} // the second rule carries a filter too: nothing of the first rule's operation may leak into it
	}
	r1, e1 := c15rule("r1", op1, k1)
	c15checkRules(QoSRules{r0, r1}, append(e0, e1...))
}

// three rules, each either "modify and delete filters" (identifier-only filter list) or an operation with full
// filters, in every order: the per-rule choice of filter-list format is independent of the rules before it
func VH_C15_rule_triple() {
	var rules QoSRules
	var want []byte
	for i := 0; i < 3; i++ {
		op := OperationCodeCreateNewQoSRule
		switch vrt.Choose(fmt.Sprintf("op%d", i), 0, 2) {
		case 1:
			op = OperationCodeModifyExistingQoSRuleAndDeletePacketFilters
		case 2:
			op = OperationCodeModifyExistingQoSRuleAndReplaceAllPacketFilters
		}
		r, e := c15rule(fmt.Sprintf("r%d", i), op, [][]int{{(3*i + 1) % 18}, {(3*i + 9) % 18}})
		rules = append(rules, r)
		want = append(want, e...)
	}
	c15checkRules(rules, want)
}

// a call that fails after it has already produced output (second rule not serialisable) leaves nothing behind:
// the next marshal calls, of rules and of flow descriptions, behave as on a fresh start
func VH_C15_marshal_after_failure() {
	good, _ := c15rule("g0", OperationCodeCreateNewQoSRule, [][]int{{0}})
	bad := QoSRule{Identifier: vrt.U8("badid"), Operation: OperationCodeCreateNewQoSRule, PacketFilterList: PacketFilterList{{
		Identifier: 1, Direction: PacketFilterDirectionBidirectional,
		Components: PacketFilterComponentList{&PacketFilterFlowLabel{Label: 1<<20 + uint32(vrt.U16("excess"))}}}}}
	failing := QoSRules{good, bad}
	_, err := failing.MarshalBinary()
	vrt.Assert(err != nil, "a flow label of 2^20 or more is not serialisable")
	if vrt.Bool("thenRules") {
		r, enc := c15rule("r0", QoSRuleOperationCode(vrt.Choose("op", 1, 6)), [][]int{{vrt.Choose("kind", 0, 17)}})
		c15checkRules(QoSRules{r}, enc)
		return
	}
	d, enc := c15desc("d0", QoSFlowOperationCode(vrt.Choose("dop", 1, 3)), []int{vrt.Choose("pkind", 0, 6)})
	descs := QoSFlowDescs{d}
	out, err := descs.MarshalBinary()
	vrt.Assert(err == nil, "marshalling a well-formed flow description after a failed rule marshal succeeds")
	vrt.Equal(out, enc, "flow descriptions serialise as on a fresh start after a failed rule marshal")
}

// all 18 component kinds in one filter; 15 filters in one rule
func VH_C15_rule_large() {
	if vrt.Bool("manyFilters") {
		var kinds [][]int
		for i := 0; i < 15; i++ {
			kinds = append(kinds, []int{i})
		}
		r, enc := c15rule("r0", OperationCodeCreateNewQoSRule, kinds)
		c15checkRules(QoSRules{r}, enc)
		return
	}
	all := make([]int, 18)
	for i := range all {
		all[i] = i
	}
	r, enc := c15rule("r0", OperationCodeCreateNewQoSRule, [][]int{all})
	c15checkRules(QoSRules{r}, enc)
}

// long packet filter lists: the serialised filter list of ONE rule runs past 256 octets (and, in the last shape, to its
// maximum of 15 filters x 254 octets), so every internal buffer used while building it has to grow at least once:
// 15 filters of 18 octets; a 234-octet filter followed by a short one (the second straddles octet 256); 15 full filters
func VH_C15_rule_long_filters() {
	op := []QoSRuleOperationCode{OperationCodeCreateNewQoSRule, OperationCodeModifyExistingQoSRuleAndAddPacketFilters, OperationCodeModifyExistingQoSRuleAndReplaceAllPacketFilters}[vrt.Choose("op", 0, 2)]
	rep := func(n int) []int {
		ks := make([]int, n)
		for i := range ks {
			ks[i] = 1 + i%2 // IPv4 remote / local address: 9 octets each
		}
		return ks
	}
	var kinds [][]int
	switch vrt.Choose("shape", 0, 2) {
	case 0:
		for i := 0; i < 15; i++ {
			kinds = append(kinds, rep(2))
		}
	case 1:
		kinds = [][]int{rep(26), rep(3)}
	default:
		for i := 0; i < 15; i++ {
			kinds = append(kinds, rep(28))
		}
	}
	r, enc := c15rule("r0", op, kinds)
	c15checkRules(QoSRules{r}, enc)
}

// ---- flow descriptions ----

func c15param(nm string, kind int) (QoSFlowParameter, []byte) {
	switch kind {
	case 0:
		v := vrt.U8(nm + "5qi")
		return &QoSFlow5QI{FiveQI: v}, []byte{0x01, 1, v}
	case 1, 2, 3, 4:
		u, v := vrt.U8(nm+"unit"), vrt.U16(nm+"val")
		enc := []byte{byte(kind + 1), 3, u, byte(v >> 8), byte(v)}
		switch kind {
		case 1:
			return &QoSFlowGFBRUplink{Unit: QoSFlowBitRateUnit(u), Value: v}, enc
		case 2:
			return &QoSFlowGFBRDownlink{Unit: QoSFlowBitRateUnit(u), Value: v}, enc
		case 3:
			return &QoSFlowMFBRUplink{Unit: QoSFlowBitRateUnit(u), Value: v}, enc
		}
		return &QoSFlowMFBRDownlink{Unit: QoSFlowBitRateUnit(u), Value: v}, enc
	case 5:
		v := vrt.U16(nm + "win")
		return &QoSFlowAveragingWindow{AverageWindow: v}, []byte{0x06, 2, byte(v >> 8), byte(v)}
	default:
		v := vrt.U8(nm + "ebi")
		return &QoSFlowEBI{EBI: v}, []byte{0x07, 1, v}
	}
}

func c15desc(nm string, op QoSFlowOperationCode, kinds []int) (QoSFlowDesc, []byte) {
	var d QoSFlowDesc
	d.QFI = vrt.U8(nm+"qfi") & 63
	d.OperationCode = op
	enc := []byte{d.QFI, uint8(op) << 5, 0}
	if len(kinds) > 0 {
		enc[2] = 1<<6 | uint8(len(kinds))
	}
	for i, k := range kinds {
		p, e := c15param(fmt.Sprintf("%sp%d", nm, i), k)
		d.Parameters = append(d.Parameters, p)
		enc = append(enc, e...)
	}
	if len(kinds) == 0 && vrt.Bool(nm+"emptyNotNil") {
		d.Parameters = QoSFlowParameterList{} // no parameters as an empty, non-nil list: same encoding as nil
	}
	return d, enc
}

func VH_C15_descs() {
	nd := vrt.Choose("descs", 1, 2)
	var list QoSFlowDescs
	var want []byte
	for i := 0; i < nd; i++ {
		op := QoSFlowOperationCode(vrt.Choose(fmt.Sprintf("op%d", i), 1, 3))
		var kinds []int
		switch vrt.Choose(fmt.Sprintf("shape%d", i), 0, 3) {
		case 1:
			kinds = []int{vrt.Choose(fmt.Sprintf("kind%d", i), 0, 6)}
		case 2:
			kinds = []int{0, 1, 2, 3, 4, 5, 6}
		case 3:
			if vrt.Thorough() {
				for j := 0; j < 63; j++ {
					kinds = append(kinds, j%7)
				}
			} else {
				for j := 0; j < 33; j++ { // more than 31: the count field is 6 bits wide
					kinds = append(kinds, (j+3)%7)
				}
			}
		}
		d, enc := c15desc(fmt.Sprintf("d%d", i), op, kinds)
		list = append(list, d)
		want = append(want, enc...)
	}
	out, err := list.MarshalBinary()
	vrt.Assert(err == nil, "marshalling flow descriptions succeeds")
	vrt.Equal(out, want, "serialised QoS flow descriptions follow TS 24.501 9.11.4.12 (QFI, op<<5, E|count, parameters id/len/value)")
	var back QoSFlowDescs
	vrt.Assert(back.UnmarshalBinary(out) == nil, "parsing the serialisation succeeds")
	vrt.Assert(len(back) == len(list), "same number of descriptions")
	for i := range list {
		vrt.Assert(back[i].QFI == list[i].QFI && back[i].OperationCode == list[i].OperationCode, "QFI and operation round-trip")
		vrt.Equal(back[i].Parameters, list[i].Parameters, "parameters round-trip")
	}
}

// the 6-bit parameter count: descriptions with 31, 32, 33 and 63 parameters (concrete values: only the count matters,
// and a mis-parsed count would otherwise send the parser into a forest of symbolic garbage)
func VH_C15_desc_count() {
	n := []int{31, 32, 33, 63}[vrt.Choose("which", 0, 3)]
	var d QoSFlowDesc
	d.QFI = 9
	d.OperationCode = OperationCodeCreateNewQoSFlowDescription
	want := []byte{9, 1 << 5, 1<<6 | byte(n)}
	for i := 0; i < n; i++ {
		d.Parameters = append(d.Parameters, &QoSFlowEBI{EBI: uint8(i % 16)})
		want = append(want, 0x07, 1, uint8(i%16))
	}
	list := QoSFlowDescs{d}
	out, err := list.MarshalBinary()
	vrt.Assert(err == nil, "marshalling a description with many parameters succeeds")
	vrt.Equal(out, want, "E bit and 6-bit parameter count, then the parameters")
	var back QoSFlowDescs
	vrt.Assert(back.UnmarshalBinary(out) == nil, "parsing a description with many parameters succeeds")
	vrt.Assert(len(back) == 1 && len(back[0].Parameters) == n, "all parameters of the one description are recovered")
	vrt.Equal(back[0].Parameters, d.Parameters, "many parameters round-trip")
}

// lists whose serialisation approaches the 16-bit length of the element: thousands of rules without filters
// (6 octets each) around 32767 and 65535 octets. Fields of the first and last rule symbolic.
func VH_C15_rules_large() {
	vrt.Unwind(12000)
	n := []int{5461, 5462, 10922}[vrt.Choose("nClass", 0, 2)] // 32766, 32772, 65532 octets
	rules := make(QoSRules, n)
	for i := range rules {
		rules[i] = QoSRule{Identifier: byte(i), Operation: OperationCodeDeleteExistingQoSRule, Precedence: byte(i >> 8), QFI: byte(i) & 63}
	}
	rules[0].Identifier, rules[0].Precedence = vrt.U8("id0"), vrt.U8("p0")
	rules[n-1].Identifier, rules[n-1].QFI = vrt.U8("idN"), vrt.U8("qN")&63
	out, err := rules.MarshalBinary()
	vrt.Assert(err == nil, "a rule list that fits the 16-bit element length is serialised")
	vrt.Assert(len(out) == 6*n, "six octets per rule without filters")
	vrt.Assert(out[0] == rules[0].Identifier && out[4] == rules[0].Precedence && out[6*(n-1)] == rules[n-1].Identifier && out[6*n-1] == rules[n-1].QFI, "first and last rule at their positions")
	var back QoSRules
	vrt.Assert(back.UnmarshalBinary(out) == nil && len(back) == n, "the long list parses back with every rule")
	vrt.Assert(back[n-1].Identifier == rules[n-1].Identifier && back[n-1].QFI == rules[n-1].QFI && back[0].Precedence == rules[0].Precedence, "rules of a long list round-trip")
}
