// Package zz_verifrt is the harness runtime. Compiled natively it reads a solver model from the JSON file
// named by $VERIF_MODEL and turns Assert/Assume into panics that the replay driver classifies; under the
// symbolic executor (symgo) every function here is intercepted and never executed.
package zz_verifrt

import (
	"encoding/json"
	"fmt"
	"os"
	"reflect"
	"runtime"
	"sync"
	"time"
)

var (
	once  sync.Once
	model map[string]uint64
)

func load() {
	once.Do(func() {
		model = map[string]uint64{}
		if p := os.Getenv("VERIF_MODEL"); p != "" {
			b, err := os.ReadFile(p)
			if err != nil {
				panic(err)
			}
			if err := json.Unmarshal(b, &model); err != nil {
				panic(err)
			}
		}
	})
}

// SetModel installs a model directly (used by the replay test driver).
func SetModel(m map[string]uint64) { once.Do(func() {}); model = m }

func get(name string) uint64 { load(); return model[name] }

type AssumeFailed struct{}
type AssertFailed struct{ Label string }

func Bool(name string) bool  { return get(name) != 0 }
func U8(name string) uint8   { return uint8(get(name)) }
func U16(name string) uint16 { return uint16(get(name)) }
func U32(name string) uint32 { return uint32(get(name)) }
func U64(name string) uint64 { return get(name) }
func I64(name string) int64  { return int64(get(name)) }
func Int(name string) int    { return int(int64(get(name))) }

func Bytes(name string, n int) []byte {
	var m0, m1 runtime.MemStats
	runtime.ReadMemStats(&m0)
	b := make([]byte, n)
	for i := range b {
		b[i] = byte(get(fmt.Sprintf("%s[%d]", name, i)))
	}
	runtime.ReadMemStats(&m1)
	allocBase += m1.TotalAlloc - m0.TotalAlloc // building an input from the model is not part of what Allocated measures
	return b
}

// BytesSym: byte string of symbolic length <= max.
func BytesSym(name string, max int) []byte {
	n := int(get(name + ".len"))
	if n > max {
		panic(AssumeFailed{})
	}
	return Bytes(name, n)
}

func Str(name string, n int) string { return string(Bytes(name, n)) }

func MapHas(m map[int64]bool, k int64) bool { _, ok := m[k]; return ok }

// MapFillRange: m[k] = true for every lo <= k < hi except k == except (m must be empty). The engine keeps this
// as an intensional description, so a map with tens of thousands of entries costs nothing per entry.
func MapFillRange(m map[int64]bool, lo, hi, except int64) {
	for k := lo; k < hi; k++ {
		if k != except {
			m[k] = true
		}
	}
}

func Assume(c bool) {
	if !c {
		panic(AssumeFailed{})
	}
}

func Assert(c bool, label string) {
	if !c {
		panic(AssertFailed{label})
	}
}

func Fail(label string) { panic(AssertFailed{label}) }

func Reach(label string) {}

// Equal asserts deep structural equality (nil slices equal empty slices).
func Equal(a, b any, label string) {
	if !Same(a, b) {
		panic(AssertFailed{label})
	}
}

func Same(a, b any) bool { return deepEq(reflect.ValueOf(a), reflect.ValueOf(b), 0) }

func deepEq(a, b reflect.Value, depth int) bool {
	if !a.IsValid() || !b.IsValid() {
		return a.IsValid() == b.IsValid()
	}
	if a.Type() != b.Type() {
		return false
	}
	if depth > 64 {
		return true
	}
	switch a.Kind() {
	case reflect.Ptr:
		if a.IsNil() || b.IsNil() {
			return a.IsNil() && b.IsNil()
		}
		return deepEq(a.Elem(), b.Elem(), depth+1)
	case reflect.Interface:
		if a.IsNil() || b.IsNil() {
			return a.IsNil() && b.IsNil()
		}
		if _, isErr := a.Interface().(error); isErr {
			return true
		}
		return deepEq(a.Elem(), b.Elem(), depth+1)
	case reflect.Slice:
		if a.Len() != b.Len() {
			return false
		}
		for i := 0; i < a.Len(); i++ {
			if !deepEq(a.Index(i), b.Index(i), depth+1) {
				return false
			}
		}
		return true
	case reflect.Array:
		for i := 0; i < a.Len(); i++ {
			if !deepEq(a.Index(i), b.Index(i), depth+1) {
				return false
			}
		}
		return true
	case reflect.Struct:
		for i := 0; i < a.NumField(); i++ {
			if !deepEq(a.Field(i), b.Field(i), depth+1) {
				return false
			}
		}
		return true
	case reflect.Map:
		if a.Len() != b.Len() {
			return false
		}
		for _, k := range a.MapKeys() {
			bv := b.MapIndex(k)
			if !bv.IsValid() || !deepEq(a.MapIndex(k), bv, depth+1) {
				return false
			}
		}
		return true
	case reflect.Func:
		return a.IsNil() == b.IsNil()
	case reflect.Bool:
		return a.Bool() == b.Bool()
	case reflect.Int, reflect.Int8, reflect.Int16, reflect.Int32, reflect.Int64:
		return a.Int() == b.Int()
	case reflect.Uint, reflect.Uint8, reflect.Uint16, reflect.Uint32, reflect.Uint64, reflect.Uintptr:
		return a.Uint() == b.Uint()
	case reflect.String:
		return a.String() == b.String()
	case reflect.Float32, reflect.Float64:
		return a.Float() == b.Float()
	}
	return reflect.DeepEqual(a.Interface(), b.Interface())
}

// ---- directives (no-ops natively) ----

func CutAt(fn, block string, k int) {}
func Cut(f func()) bool             { f(); return false }
func UF(fn, sym string)             {}
func Unwind(n int)                  {}
func NoMerge()                      {}
func Merge()                        {}
func ExpectPanic()                  {}
func NoPanicExpected()              {}
func MaxPaths(n int)                {}

// TrackAlloc / Allocated: under symgo a ghost count of the bytes requested by make/append/new since TrackAlloc.
// Natively (replay of a solver model against the real build) the real heap allocation of the process since
// TrackAlloc is measured instead, less a 16 KiB allowance for what the ghost count ignores (message structs,
// error values, runtime bookkeeping): a native failure of an allocation bound therefore means the real decoder
// really allocated more than the bound, and a path that respects the ghost bound cannot fail natively.
var allocBase uint64

func TrackAlloc() {
	once.Do(load) // reading the model file is not part of what is measured
	var m runtime.MemStats
	runtime.ReadMemStats(&m)
	allocBase = m.TotalAlloc
}

func Allocated() int {
	var m runtime.MemStats
	runtime.ReadMemStats(&m)
	d := int(m.TotalAlloc - allocBase)
	if d < 16384 {
		return 0
	}
	return d - 16384
}
func Steps() int { return 0 }

// Panics reports whether f panics.
func Panics(f func()) (p bool) {
	defer func() {
		if r := recover(); r != nil {
			switch r.(type) {
			case AssumeFailed, AssertFailed:
				panic(r)
			}
			p = true
		}
	}()
	f()
	return false
}

// ---- snapshots / sharing (native: deep copies through reflection) ----

var snaps []struct {
	orig reflect.Value
	copy reflect.Value
}

func deepCopy(v reflect.Value) reflect.Value {
	if !v.IsValid() {
		return v
	}
	switch v.Kind() {
	case reflect.Ptr:
		if v.IsNil() {
			return v
		}
		n := reflect.New(v.Type().Elem())
		n.Elem().Set(deepCopy(v.Elem()))
		return n
	case reflect.Slice:
		if v.IsNil() {
			return v
		}
		n := reflect.MakeSlice(v.Type(), v.Len(), v.Len())
		for i := 0; i < v.Len(); i++ {
			n.Index(i).Set(deepCopy(v.Index(i)))
		}
		return n
	case reflect.Struct:
		n := reflect.New(v.Type()).Elem()
		for i := 0; i < v.NumField(); i++ {
			if n.Field(i).CanSet() {
				n.Field(i).Set(deepCopy(v.Field(i)))
			}
		}
		return n
	case reflect.Array:
		n := reflect.New(v.Type()).Elem()
		for i := 0; i < v.Len(); i++ {
			n.Index(i).Set(deepCopy(v.Index(i)))
		}
		return n
	case reflect.Interface:
		if v.IsNil() {
			return v
		}
		n := reflect.New(v.Type()).Elem()
		n.Set(deepCopy(v.Elem()))
		return n
	}
	return v
}

func Snapshot(x any) int {
	v := reflect.ValueOf(x)
	snaps = append(snaps, struct{ orig, copy reflect.Value }{v, deepCopy(v)})
	return len(snaps) - 1
}

func Unchanged(id int) bool { return deepEq(snaps[id].orig, snaps[id].copy, 0) }

func collectPtrs(v reflect.Value, out map[uintptr]bool, depth int) {
	if !v.IsValid() || depth > 32 {
		return
	}
	switch v.Kind() {
	case reflect.Ptr:
		if !v.IsNil() {
			out[v.Pointer()] = true
			collectPtrs(v.Elem(), out, depth+1)
		}
	case reflect.Slice:
		if !v.IsNil() && v.Cap() > 0 {
			// every element address of the backing array visible through this slice
			full := v.Slice(0, v.Cap())
			sz := v.Type().Elem().Size()
			for i := 0; i < full.Len(); i++ {
				out[full.Pointer()+uintptr(i)*sz] = true
				collectPtrs(full.Index(i), out, depth+1)
			}
		}
	case reflect.Struct:
		for i := 0; i < v.NumField(); i++ {
			collectPtrs(v.Field(i), out, depth+1)
		}
	case reflect.Array:
		for i := 0; i < v.Len(); i++ {
			collectPtrs(v.Index(i), out, depth+1)
		}
	case reflect.Interface:
		if !v.IsNil() {
			collectPtrs(v.Elem(), out, depth+1)
		}
	}
}

// Shares reports whether some memory is reachable from both a and b.
func Shares(a, b any) bool {
	pa, pb := map[uintptr]bool{}, map[uintptr]bool{}
	collectPtrs(reflect.ValueOf(a), pa, 0)
	collectPtrs(reflect.ValueOf(b), pb, 0)
	for p := range pa {
		if pb[p] {
			return true
		}
	}
	return false
}

func FootprintBegin()           {}
func FootprintEnd(label string) {}
func Owned(x any)               {}

func I8(name string) int8   { return int8(get(name)) }
func I16(name string) int16 { return int16(get(name)) }
func I32(name string) int32 { return int32(get(name)) }

// Choose returns a value in lo..hi; the symbolic executor explores every value as a separate path.
func Choose(name string, lo, hi int) int {
	v := int(int64(get(name)))
	if v < lo || v > hi {
		panic(AssumeFailed{})
	}
	return v
}

func UFSlice(fn, sym string, lenArg int) {}
func QueryTimeout(ms int)                {}

// ZoneDST returns a location whose single zone rule has the given total UTC offset and daylight-saving flag
// (time.FixedZone never reports DST). Natively the location is built from a minimal TZif image.
func ZoneDST(offsetSeconds int, dst bool) *time.Location {
	if !dst {
		return time.FixedZone("zone", offsetSeconds)
	}
	b := []byte("TZif")
	b = append(b, 0)
	b = append(b, make([]byte, 15)...)
	be := func(v uint32) []byte { return []byte{byte(v >> 24), byte(v >> 16), byte(v >> 8), byte(v)} }
	for _, n := range []uint32{0, 0, 0, 0, 1, 4} { // isutcnt isstdcnt leapcnt timecnt typecnt charcnt
		b = append(b, be(n)...)
	}
	b = append(b, be(uint32(int32(offsetSeconds)))...)
	b = append(b, 1, 0) // isdst, abbreviation index
	b = append(b, 'D', 'S', 'T', 0)
	loc, err := time.LoadLocationFromTZData("dstzone", b)
	if err != nil {
		panic(err)
	}
	return loc
}

// ZoneDST2 is ZoneDST with a second rule: the zone has the total offset offsetSeconds (DST flag dst) from the year
// 1800 on and, if hasNext, the standard offset nextSeconds from the year 2200 on, so that for every instant 2000-2099
// Time.ZoneBounds ends at an instant with the offset nextSeconds (or never). Natively a TZif version 2 image.
func ZoneDST2(offsetSeconds int, dst bool, nextSeconds int, hasNext bool) *time.Location {
	be32 := func(v uint32) []byte { return []byte{byte(v >> 24), byte(v >> 16), byte(v >> 8), byte(v)} }
	be64 := func(v int64) []byte {
		u := uint64(v)
		return []byte{byte(u >> 56), byte(u >> 48), byte(u >> 40), byte(u >> 32), byte(u >> 24), byte(u >> 16), byte(u >> 8), byte(u)}
	}
	hdr := func(counts []uint32) []byte {
		b := append([]byte("TZif2"), make([]byte, 15)...)
		for _, n := range counts {
			b = append(b, be32(n)...)
		}
		return b
	}
	ntime := uint32(1)
	if hasNext {
		ntime = 2
	}
	b := hdr([]uint32{0, 0, 0, 0, 0, 0})                  // empty version-1 block
	b = append(b, hdr([]uint32{0, 0, 0, ntime, 2, 8})...) // isut isstd leap time type char
	b = append(b, be64(-5364662400)...)                   // 1800-01-01
	if hasNext {
		b = append(b, be64(7258118400)...) // 2200-01-01
	}
	b = append(b, 0)
	if hasNext {
		b = append(b, 1)
	}
	d := byte(0)
	if dst {
		d = 1
	}
	b = append(b, be32(uint32(int32(offsetSeconds)))...)
	b = append(b, d, 0)
	b = append(b, be32(uint32(int32(nextSeconds)))...)
	b = append(b, 0, 4)
	b = append(b, 'D', 'S', 'T', 0, 'S', 'T', 'D', 0)
	b = append(b, '\n', '\n')
	loc, err := time.LoadLocationFromTZData("zone2", b)
	if err != nil {
		panic(err)
	}
	return loc
}
