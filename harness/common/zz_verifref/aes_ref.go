package zz_verifref

import "crypto/aes"

// 128-EEA2 (AES-128 in CTR mode, TS 33.401 B.1.3) and 128-EIA2 (AES-128 CMAC, RFC 4493 / TS 33.401 B.2.3).
// The block function itself is crypto/aes (an uninterpreted function under the symbolic executor).

func aesBlock(key [16]byte, in [16]byte) (out [16]byte) {
	c, err := aes.NewCipher(key[:])
	if err != nil {
		panic(err)
	}
	c.Encrypt(out[:], in[:])
	return
}

func EEA2(key [16]byte, count uint32, bearer, dir uint8, data []byte) []byte {
	var ctr [16]byte
	ctr[0], ctr[1], ctr[2], ctr[3] = byte(count>>24), byte(count>>16), byte(count>>8), byte(count)
	ctr[4] = (bearer << 3) | ((dir & 1) << 2)
	out := make([]byte, len(data))
	for off := 0; off < len(data); off += 16 {
		ks := aesBlock(key, ctr)
		for j := 0; j < 16 && off+j < len(data); j++ {
			out[off+j] = data[off+j] ^ ks[j]
		}
		for k := 15; k >= 0; k-- { // 128-bit big-endian increment
			ctr[k]++
			if ctr[k] != 0 {
				break
			}
		}
	}
	return out
}

func cmacShift(in [16]byte) (out [16]byte) {
	for i := 0; i < 15; i++ {
		out[i] = in[i]<<1 | in[i+1]>>7
	}
	out[15] = in[15] << 1
	// "if MSB(in) = 1 then xor const_Rb" (RFC 4493 2.3), written without a branch: -(msb) is 0x00 or 0xff
	out[15] ^= 0x87 & -(in[0] >> 7)
	return
}

// CMAC per RFC 4493 section 2.4.
func CMAC(key [16]byte, M []byte) [16]byte {
	var zero [16]byte
	L := aesBlock(key, zero)
	K1 := cmacShift(L)
	K2 := cmacShift(K1)
	n := (len(M) + 15) / 16
	flag := false
	if n == 0 {
		n = 1
	} else {
		flag = len(M)%16 == 0
	}
	var last [16]byte
	if flag {
		for j := 0; j < 16; j++ {
			last[j] = M[16*(n-1)+j] ^ K1[j]
		}
	} else {
		rem := len(M) - 16*(n-1)
		for j := 0; j < 16; j++ {
			var b byte
			if j < rem {
				b = M[16*(n-1)+j]
			} else if j == rem {
				b = 0x80
			}
			last[j] = b ^ K2[j]
		}
	}
	var X [16]byte
	for i := 0; i < n-1; i++ {
		var Y [16]byte
		for j := 0; j < 16; j++ {
			Y[j] = X[j] ^ M[16*i+j]
		}
		X = aesBlock(key, Y)
	}
	var Y [16]byte
	for j := 0; j < 16; j++ {
		Y[j] = last[j] ^ X[j]
	}
	return aesBlock(key, Y)
}

func EIA2(key [16]byte, count uint32, bearer, dir uint8, msg []byte) [4]byte {
	m := make([]byte, 8+len(msg))
	m[0], m[1], m[2], m[3] = byte(count>>24), byte(count>>16), byte(count>>8), byte(count)
	m[4] = (bearer << 3) | ((dir & 1) << 2)
	copy(m[8:], msg)
	t := CMAC(key, m)
	return [4]byte{t[0], t[1], t[2], t[3]}
}
