package zz_verifref

// SNOW 3G, UEA2 (f8) and UIA2 (f9): transliteration of the ETSI/SAGE specification
// ("Specification of the 3GPP Confidentiality and Integrity Algorithms UEA2 & UIA2", documents 1 and 2, annex code).

type Snow3G struct {
	S          [16]uint32 // LFSR s0..s15
	R1, R2, R3 uint32     // FSM
}

func MULx(V, c byte) byte {
	if V&0x80 != 0 {
		return (V << 1) ^ c
	}
	return V << 1
}

func MULxPOW(V byte, i int, c byte) byte {
	if i == 0 {
		return V
	}
	return MULx(MULxPOW(V, i-1, c), c)
}

func MULa(c byte) uint32 {
	return uint32(MULxPOW(c, 23, 0xa9))<<24 | uint32(MULxPOW(c, 245, 0xa9))<<16 | uint32(MULxPOW(c, 48, 0xa9))<<8 | uint32(MULxPOW(c, 239, 0xa9))
}

func DIVa(c byte) uint32 {
	return uint32(MULxPOW(c, 16, 0xa9))<<24 | uint32(MULxPOW(c, 39, 0xa9))<<16 | uint32(MULxPOW(c, 6, 0xa9))<<8 | uint32(MULxPOW(c, 64, 0xa9))
}

func S1(w uint32) uint32 {
	srw0 := SR[byte(w>>24)]
	srw1 := SR[byte(w>>16)]
	srw2 := SR[byte(w>>8)]
	srw3 := SR[byte(w)]
	r0 := MULx(srw0, 0x1b) ^ srw1 ^ srw2 ^ MULx(srw3, 0x1b) ^ srw3
	r1 := MULx(srw0, 0x1b) ^ srw0 ^ MULx(srw1, 0x1b) ^ srw2 ^ srw3
	r2 := srw0 ^ MULx(srw1, 0x1b) ^ srw1 ^ MULx(srw2, 0x1b) ^ srw3
	r3 := srw0 ^ srw1 ^ MULx(srw2, 0x1b) ^ srw2 ^ MULx(srw3, 0x1b)
	return uint32(r0)<<24 | uint32(r1)<<16 | uint32(r2)<<8 | uint32(r3)
}

func S2(w uint32) uint32 {
	sqw0 := SQ[byte(w>>24)]
	sqw1 := SQ[byte(w>>16)]
	sqw2 := SQ[byte(w>>8)]
	sqw3 := SQ[byte(w)]
	r0 := MULx(sqw0, 0x69) ^ sqw1 ^ sqw2 ^ MULx(sqw3, 0x69) ^ sqw3
	r1 := MULx(sqw0, 0x69) ^ sqw0 ^ MULx(sqw1, 0x69) ^ sqw2 ^ sqw3
	r2 := sqw0 ^ MULx(sqw1, 0x69) ^ sqw1 ^ MULx(sqw2, 0x69) ^ sqw3
	r3 := sqw0 ^ sqw1 ^ MULx(sqw2, 0x69) ^ sqw2 ^ MULx(sqw3, 0x69)
	return uint32(r0)<<24 | uint32(r1)<<16 | uint32(r2)<<8 | uint32(r3)
}

func (s *Snow3G) ClockLFSRInitializationMode(F uint32) {
	v := (s.S[0] << 8) ^ MULa(byte(s.S[0]>>24)) ^ s.S[2] ^ (s.S[11] >> 8) ^ DIVa(byte(s.S[11])) ^ F
	for i := 0; i < 15; i++ {
		s.S[i] = s.S[i+1]
	}
	s.S[15] = v
}

func (s *Snow3G) ClockLFSRKeyStreamMode() {
	v := (s.S[0] << 8) ^ MULa(byte(s.S[0]>>24)) ^ s.S[2] ^ (s.S[11] >> 8) ^ DIVa(byte(s.S[11]))
	for i := 0; i < 15; i++ {
		s.S[i] = s.S[i+1]
	}
	s.S[15] = v
}

func (s *Snow3G) ClockFSM() uint32 {
	F := (s.S[15] + s.R1) ^ s.R2
	r := s.R2 + (s.R3 ^ s.S[5])
	s.R3 = S2(s.R2)
	s.R2 = S1(s.R1)
	s.R1 = r
	return F
}

// Initialize: k[0..3], IV[0..3] as in the specification (k[0] is the word built from key octets 12..15).
func (s *Snow3G) Initialize(k, IV [4]uint32) {
	s.S[15] = k[3] ^ IV[0]
	s.S[14] = k[2]
	s.S[13] = k[1]
	s.S[12] = k[0] ^ IV[1]
	s.S[11] = k[3] ^ 0xffffffff
	s.S[10] = k[2] ^ 0xffffffff ^ IV[2]
	s.S[9] = k[1] ^ 0xffffffff ^ IV[3]
	s.S[8] = k[0] ^ 0xffffffff
	s.S[7] = k[3]
	s.S[6] = k[2]
	s.S[5] = k[1]
	s.S[4] = k[0]
	s.S[3] = k[3] ^ 0xffffffff
	s.S[2] = k[2] ^ 0xffffffff
	s.S[1] = k[1] ^ 0xffffffff
	s.S[0] = k[0] ^ 0xffffffff
	s.R1, s.R2, s.R3 = 0, 0, 0
	for i := 0; i < 32; i++ {
		F := s.ClockFSM()
		s.ClockLFSRInitializationMode(F)
	}
}

func (s *Snow3G) GenerateKeystream(n int) []uint32 {
	ks := make([]uint32, n)
	s.ClockFSM()
	s.ClockLFSRKeyStreamMode()
	for t := 0; t < n; t++ {
		F := s.ClockFSM()
		ks[t] = F ^ s.S[0]
		s.ClockLFSRKeyStreamMode()
	}
	return ks
}

// SnowKeystream: Initialize followed by GenerateKeystream(n).
func SnowKeystream(k, IV [4]uint32, n int) []uint32 {
	var s Snow3G
	s.Initialize(k, IV)
	return s.GenerateKeystream(n)
}

func snowKey(key [16]byte) (K [4]uint32) {
	for i := 0; i < 4; i++ {
		K[3-i] = uint32(key[4*i])<<24 | uint32(key[4*i+1])<<16 | uint32(key[4*i+2])<<8 | uint32(key[4*i+3])
	}
	return
}

// UEA2 / 128-EEA1: returns the first length bits of data xor keystream (pad bits of the last octet are zero).
func EEA1(key [16]byte, count uint32, bearer, dir uint32, data []byte, length uint32) []byte {
	K := snowKey(key)
	var IV [4]uint32
	IV[3] = count
	IV[2] = (bearer << 27) | ((dir & 1) << 26)
	IV[1] = IV[3]
	IV[0] = IV[2]
	n := int((length + 31) / 32)
	KS := SnowKeystream(K, IV, n)
	out := make([]byte, len(data))
	nbytes := int((length + 7) / 8)
	for i := 0; i < nbytes; i++ {
		out[i] = data[i] ^ byte(KS[i/4]>>uint(8*(3-i%4)))
	}
	if length%8 != 0 {
		out[nbytes-1] &= byte(0xff) << (8 - length%8)
	}
	return out
}

func MUL64x(V, c uint64) uint64 {
	if V&0x8000000000000000 != 0 {
		return (V << 1) ^ c
	}
	return V << 1
}

func MUL64xPOW(V uint64, i int, c uint64) uint64 {
	if i == 0 {
		return V
	}
	return MUL64x(MUL64xPOW(V, i-1, c), c)
}

func MUL64(V, P, c uint64) uint64 {
	var result uint64
	for i := 0; i < 64; i++ {
		if (P>>uint(i))&1 == 1 {
			result ^= MUL64xPOW(V, i, c)
		}
	}
	return result
}

// UIA2 / 128-EIA1 over the first length bits of data (FRESH = bearer || 0^27 per TS 33.501 D.3.1.2).
func EIA1(key [16]byte, count uint32, bearer, dir uint32, data []byte, length uint64) [4]byte {
	K := snowKey(key)
	fresh := bearer << 27
	var IV [4]uint32
	IV[3] = count
	IV[2] = fresh
	IV[1] = count ^ (dir << 31)
	IV[0] = fresh ^ (dir << 15)
	z := SnowKeystream(K, IV, 5)
	P := uint64(z[0])<<32 | uint64(z[1])
	Q := uint64(z[2])<<32 | uint64(z[3])
	// message blocks M_0 .. M_{D-2}: the message padded with zero bits to a multiple of 64 bits
	nblocks := int((length + 63) / 64)
	var EVAL uint64
	for i := 0; i < nblocks; i++ {
		var M uint64
		for j := 0; j < 8; j++ {
			var b byte
			bitpos := uint64(64*i + 8*j)
			if bitpos < length {
				b = data[8*i+j]
				if length-bitpos < 8 {
					b &= byte(0xff) << (8 - (length - bitpos))
				}
			}
			M = M<<8 | uint64(b)
		}
		EVAL = MUL64(EVAL^M, P, 0x1b)
	}
	EVAL ^= length
	EVAL = MUL64(EVAL, Q, 0x1b)
	mac := uint32(EVAL>>32) ^ z[4]
	return [4]byte{byte(mac >> 24), byte(mac >> 16), byte(mac >> 8), byte(mac)}
}
