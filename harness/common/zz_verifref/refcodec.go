// Package zz_verifref: short reference models written from the specifications, independent of the library code.
// refcodec: a table-driven encoder/decoder for TS 24.501 messages (clause 8 tables; TS 24.007 11.2 formats).
package zz_verifref

const (
	FV    = iota // value only, N octets
	FLV          // 1 length octet + value
	FLVE         // 2 length octets + value
	FTV1         // type 1: half-octet identifier (bits 8-5) + half-octet value in one octet
	FTV          // identifier octet + N value octets
	FT           // identifier octet only
	FTLV         // identifier + 1 length octet + value
	FTLVE        // identifier + 2 length octets + value
)

type Row struct {
	Name     string
	Opt      bool
	F        int
	IEI      uint8 // full octet, or the identifier nibble (8..15) for FTV1
	Min, Max int   // bounds on the length field (FLV, FLVE, FTLV, FTLVE)
	N        int   // value octets (FV, FTV)
	Lens     []int // if non-nil: the only admissible values of the length field
	Cap      int   // library storage: fixed array of Cap octets (0: variable-size buffer)
}

// Elem is one decoded / to-be-encoded information element.
type Elem struct {
	Present bool
	T       uint8  // identifier octet as on the wire (optional elements)
	L       int    // length field (formats with L)
	V       []byte // value octets
}

// Decode parses in according to rows. ok=false: the input is rejected (truncated, or a length out of bounds).
// Unknown identifier octets in the optional part are skipped one octet at a time; the last duplicate wins.
func Decode(rows []Row, in []byte) (es []Elem, ok bool) {
	es, _, ok = DecodeQ(rows, in)
	return es, ok
}

// DecodeQ is Decode; quirk reports that an identifier position held an octet 0x08..0x0F equal to the nibble of a
// type-1 (half-octet) row. Such an octet is not an identifier of any message (type-1 identifiers have bit 8 set);
// the reference skips it like any unknown octet.
func DecodeQ(rows []Row, in []byte) (es []Elem, quirk bool, ok bool) {
	es = make([]Elem, len(rows))
	off := 0
	for i, r := range rows {
		if r.Opt {
			continue
		}
		switch r.F {
		case FV:
			if len(in)-off < r.N {
				return nil, quirk, false
			}
			es[i] = Elem{Present: true, V: in[off : off+r.N]}
			off += r.N
		case FLV, FLVE:
			l, n, good := lenField(in, off, r.F == FLVE)
			if !good || !lenOK(r, l) {
				return nil, quirk, false
			}
			off += n
			if len(in)-off < l {
				return nil, quirk, false
			}
			es[i] = Elem{Present: true, L: l, V: in[off : off+l]}
			off += l
		}
	}
	for off < len(in) {
		t := in[off]
		off++
		for _, r := range rows {
			if r.Opt && r.F == FTV1 && t == r.IEI {
				quirk = true
			}
		}
		idx := matchRow(rows, t)
		if idx < 0 {
			continue
		}
		r := rows[idx]
		switch r.F {
		case FTV1, FT:
			es[idx] = Elem{Present: true, T: t}
		case FTV:
			if len(in)-off < r.N {
				return nil, quirk, false
			}
			es[idx] = Elem{Present: true, T: t, V: in[off : off+r.N]}
			off += r.N
		case FTLV, FTLVE:
			l, n, good := lenField(in, off, r.F == FTLVE)
			if !good || !lenOK(r, l) {
				return nil, quirk, false
			}
			off += n
			if len(in)-off < l {
				return nil, quirk, false
			}
			es[idx] = Elem{Present: true, T: t, L: l, V: in[off : off+l]}
			off += l
		}
	}
	return es, quirk, true
}

// matchRow: index of the optional row identified by the octet t, -1 if none. Identifiers within one table are
// distinct, so the first match is the only one. (Returning from inside the loop keeps the index concrete on every
// path of the symbolic execution instead of merging it into one symbolic index.)
func matchRow(rows []Row, t uint8) int {
	for i, r := range rows {
		if !r.Opt {
			continue
		}
		if r.F == FTV1 {
			if t >= 0x80 && t>>4 == r.IEI {
				return i
			}
		} else if t < 0x80 && t == r.IEI {
			return i
		}
	}
	return -1
}

// lenOK: is l an admissible length for row r?
func lenOK(r Row, l int) bool {
	if l < r.Min || l > r.Max {
		return false
	}
	if r.Lens == nil {
		return true
	}
	for _, x := range r.Lens {
		if x == l {
			return true
		}
	}
	return false
}

func lenField(in []byte, off int, ext bool) (l, n int, ok bool) {
	if ext {
		if len(in)-off < 2 {
			return 0, 0, false
		}
		return int(in[off])<<8 | int(in[off+1]), 2, true
	}
	if len(in)-off < 1 {
		return 0, 0, false
	}
	return int(in[off]), 1, true
}

// Encode emits the elements in table order.
func Encode(rows []Row, es []Elem) []byte {
	var out []byte
	for i, r := range rows {
		e := es[i]
		if r.Opt && !e.Present {
			continue
		}
		switch r.F {
		case FV:
			out = append(out, e.V...)
		case FLV:
			out = append(out, uint8(e.L))
			out = append(out, e.V...)
		case FLVE:
			out = append(out, uint8(e.L>>8), uint8(e.L))
			out = append(out, e.V...)
		case FTV1, FT:
			out = append(out, e.T)
		case FTV:
			out = append(out, e.T)
			out = append(out, e.V...)
		case FTLV:
			out = append(out, e.T, uint8(e.L))
			out = append(out, e.V...)
		case FTLVE:
			out = append(out, e.T, uint8(e.L>>8), uint8(e.L))
			out = append(out, e.V...)
		}
	}
	return out
}

// Size returns the encoded size of the elements.
func Size(rows []Row, es []Elem) int { return len(Encode(rows, es)) }

// Pad returns es with the value of every element stored in a fixed array zero-padded to the array size
// (a decoded element must not retain octets of anything else beyond its declared length).
func Pad(rows []Row, es []Elem) []Elem {
	out := make([]Elem, len(es))
	copy(out, es)
	for i, r := range rows {
		if r.Cap > 0 && es[i].Present {
			v := make([]byte, r.Cap)
			copy(v, es[i].V)
			out[i].V = v
		}
	}
	return out
}

// WellFormed: every present element with a length field has a length within the table bounds and, unless it lives
// in a fixed array, exactly that many value octets (the precondition of the encode/decode round trip).
func WellFormed(rows []Row, es []Elem) bool {
	for i, r := range rows {
		e := es[i]
		if !e.Present {
			continue
		}
		switch r.F {
		case FLV, FLVE, FTLV, FTLVE:
			if !lenOK(r, e.L) {
				return false
			}
			if r.Cap == 0 && len(e.V) != e.L {
				return false
			}
		}
	}
	return true
}
