package zz_verifref

// ZUC, 128-EEA3 and 128-EIA3: transliteration of the specification
// ("Specification of the 3GPP Confidentiality and Integrity Algorithms 128-EEA3 & 128-EIA3", documents 1 and 2, annex code).

type ZUC struct {
	S                  [16]uint32
	R1, R2             uint32
	X0, X1, X2, X3     uint32
}

func AddM(a, b uint32) uint32 {
	c := a + b
	return (c & 0x7FFFFFFF) + (c >> 31)
}

func MulByPow2(x uint32, k uint) uint32 {
	return ((x << k) | (x >> (31 - k))) & 0x7FFFFFFF
}

func (z *ZUC) lfsrNext() uint32 {
	f := z.S[0]
	v := MulByPow2(z.S[0], 8)
	f = AddM(f, v)
	v = MulByPow2(z.S[4], 20)
	f = AddM(f, v)
	v = MulByPow2(z.S[10], 21)
	f = AddM(f, v)
	v = MulByPow2(z.S[13], 17)
	f = AddM(f, v)
	v = MulByPow2(z.S[15], 15)
	f = AddM(f, v)
	return f
}

func (z *ZUC) shift(f uint32) {
	for i := 0; i < 15; i++ {
		z.S[i] = z.S[i+1]
	}
	z.S[15] = f
}

func (z *ZUC) LFSRWithInitialisationMode(u uint32) {
	f := z.lfsrNext()
	f = AddM(f, u)
	z.shift(f)
}

func (z *ZUC) LFSRWithWorkMode() {
	z.shift(z.lfsrNext())
}

func (z *ZUC) BitReorganization() {
	z.X0 = ((z.S[15] & 0x7FFF8000) << 1) | (z.S[14] & 0xFFFF)
	z.X1 = ((z.S[11] & 0xFFFF) << 16) | (z.S[9] >> 15)
	z.X2 = ((z.S[7] & 0xFFFF) << 16) | (z.S[5] >> 15)
	z.X3 = ((z.S[2] & 0xFFFF) << 16) | (z.S[0] >> 15)
}

func ROT(a uint32, k uint) uint32 { return (a << k) | (a >> (32 - k)) }
func ZL1(X uint32) uint32        { return X ^ ROT(X, 2) ^ ROT(X, 10) ^ ROT(X, 18) ^ ROT(X, 24) }
func ZL2(X uint32) uint32        { return X ^ ROT(X, 8) ^ ROT(X, 14) ^ ROT(X, 22) ^ ROT(X, 30) }
func MAKEU32(a, b, c, d byte) uint32 {
	return uint32(a)<<24 | uint32(b)<<16 | uint32(c)<<8 | uint32(d)
}

func (z *ZUC) F() uint32 {
	W := (z.X0 ^ z.R1) + z.R2
	W1 := z.R1 + z.X1
	W2 := z.R2 ^ z.X2
	u := ZL1((W1 << 16) | (W2 >> 16))
	v := ZL2((W2 << 16) | (W1 >> 16))
	z.R1 = MAKEU32(ZS0[u>>24], ZS1[(u>>16)&0xFF], ZS0[(u>>8)&0xFF], ZS1[u&0xFF])
	z.R2 = MAKEU32(ZS0[v>>24], ZS1[(v>>16)&0xFF], ZS0[(v>>8)&0xFF], ZS1[v&0xFF])
	return W
}

func (z *ZUC) Initialization(k, iv []byte) {
	for i := 0; i < 16; i++ {
		z.S[i] = uint32(k[i])<<23 | ZD[i]<<8 | uint32(iv[i])
	}
	z.R1, z.R2 = 0, 0
	for n := 32; n > 0; n-- {
		z.BitReorganization()
		w := z.F()
		z.LFSRWithInitialisationMode(w >> 1)
	}
}

func (z *ZUC) GenerateKeystream(n int) []uint32 {
	ks := make([]uint32, n)
	z.BitReorganization()
	z.F()
	z.LFSRWithWorkMode()
	for i := 0; i < n; i++ {
		z.BitReorganization()
		ks[i] = z.F() ^ z.X3
		z.LFSRWithWorkMode()
	}
	return ks
}

func ZUCKeystream(k, iv []byte, n int) []uint32 {
	var z ZUC
	z.Initialization(k, iv)
	return z.GenerateKeystream(n)
}

// EEA3: first length bits of data xor keystream; remaining bits of the last octet are zero.
func EEA3(ck [16]byte, count uint32, bearer, dir uint8, data []byte, length uint32) []byte {
	var iv [16]byte
	iv[0], iv[1], iv[2], iv[3] = byte(count>>24), byte(count>>16), byte(count>>8), byte(count)
	iv[4] = (bearer << 3) | ((dir & 1) << 2)
	for i := 0; i < 8; i++ {
		iv[8+i] = iv[i]
	}
	L := int((length + 31) / 32)
	z := ZUCKeystream(ck[:], iv[:], L)
	out := make([]byte, len(data))
	nbytes := int((length + 7) / 8)
	for i := 0; i < nbytes; i++ {
		out[i] = data[i] ^ byte(z[i/4]>>uint(8*(3-i%4)))
	}
	if length%8 != 0 {
		out[nbytes-1] &= byte(0xff) << (8 - length%8)
	}
	return out
}

func zGetWord(z []uint32, i int) uint32 {
	ti := i % 32
	if ti == 0 {
		return z[i/32]
	}
	return (z[i/32] << uint(ti)) | (z[i/32+1] >> uint(32-ti))
}

// EIA3 over the first length bits of data.
func EIA3(ik [16]byte, count uint32, bearer, dir uint8, data []byte, length uint32) [4]byte {
	var iv [16]byte
	iv[0], iv[1], iv[2], iv[3] = byte(count>>24), byte(count>>16), byte(count>>8), byte(count)
	iv[4] = bearer << 3
	iv[8] = iv[0] ^ (dir << 7)
	iv[9], iv[10], iv[11], iv[12], iv[13] = iv[1], iv[2], iv[3], iv[4], iv[5]
	iv[14] = iv[6] ^ (dir << 7)
	iv[15] = iv[7]
	N := length + 64
	L := int((N + 31) / 32)
	z := ZUCKeystream(ik[:], iv[:], L)
	var T uint32
	for i := 0; i < int(length); i++ {
		if data[i/8]&(1<<uint(7-i%8)) != 0 {
			T ^= zGetWord(z, i)
		}
	}
	T ^= zGetWord(z, int(length))
	mac := T ^ z[L-1]
	return [4]byte{byte(mac >> 24), byte(mac >> 16), byte(mac >> 8), byte(mac)}
}
