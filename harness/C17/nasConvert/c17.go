package nasConvert

import (
	"fmt"

	"github.com/free5gc/openapi/models"
	vrt "github.com/free5gc/nas/zz_verifrt"
)

// C17: timers, bit rates, time zones, network names.

// TS 24.008 10.5.7.4 (GPRS timer / GPRS timer 2): bits 8-6 unit, bits 5-1 value
func c17dec2(o uint8) int {
	v := int(o & 0x1f)
	switch o >> 5 {
	case 0:
		return 2 * v
	case 1:
		return 60 * v
	case 2:
		return 360 * v
	case 7:
		return 0 // deactivated
	}
	return 60 * v // other values: multiples of 1 minute
}

// TS 24.008 10.5.7.4a (GPRS timer 3)
func c17dec3(o uint8) int {
	v := int(o & 0x1f)
	switch o >> 5 {
	case 0:
		return 600 * v
	case 1:
		return 3600 * v
	case 2:
		return 36000 * v
	case 3:
		return 2 * v
	case 4:
		return 30 * v
	case 5:
		return 60 * v
	case 6:
		return 320 * 3600 * v
	}
	return 0 // deactivated
}

func VH_C17_timer2() {
	v := int(vrt.U16("v") & 0x3fff) // 0..16383 covers 0..11160
	vrt.Assume(v <= 11160)
	o := GPRSTimer2ToNas(v)
	d := c17dec2(o)
	vrt.Assert(d <= v, "GPRS timer 2: the encoded timer never decodes to more than requested")
	rep := (v%2 == 0 && v <= 62) || (v%60 == 0 && v <= 1860) || (v%360 == 0 && v <= 11160)
	if rep {
		vrt.Assert(d == v, "GPRS timer 2: every representable duration is encoded exactly")
	}
}

func VH_C17_timer3() {
	v := int(vrt.U32("v") & 0x1fffff) // 0..2097151 covers 0..1116000
	vrt.Assume(v <= 1116000)
	o := GPRSTimer3ToNas(v)
	d := c17dec3(o)
	vrt.Assert(d <= v, "GPRS timer 3: the encoded timer never decodes to more than requested")
	rep := (v%2 == 0 && v <= 62) || (v%30 == 0 && v <= 930) || (v%60 == 0 && v <= 1860) ||
		(v%600 == 0 && v <= 18600) || (v%3600 == 0 && v <= 111600) || (v%36000 == 0 && v <= 1116000)
	if rep {
		vrt.Assert(d == v, "GPRS timer 3: every representable duration is encoded exactly")
	}
}

// session AMBR: "<0..65535> <unit>" for uplink and downlink
func c17ambrString(name string) (s string, val uint16, unit uint8) {
	nd := vrt.Choose(name+"digits", 1, 5)
	var v uint32
	b := make([]byte, 0, 12)
	for i := 0; i < nd; i++ {
		d := vrt.U8(fmt.Sprintf("%sd%d", name, i))
		vrt.Assume(d <= 9)
		if i == 0 && nd > 1 {
			vrt.Assume(d != 0) // no leading zero
		}
		v = v*10 + uint32(d)
		b = append(b, '0'+d)
	}
	vrt.Assume(v <= 65535)
	units := []string{"Kbps", "Mbps", "Gbps", "Tbps", "Pbps"}
	codes := []uint8{0x01, 0x06, 0x0B, 0x10, 0x15} // TS 24.501 Table 9.11.4.14.1
	u := vrt.Choose(name+"unit", 0, 4)
	b = append(b, ' ')
	b = append(b, units[u]...)
	return string(b), uint16(v), codes[u]
}

func VH_C17_ambr() {
	up, uv, uu := c17ambrString("up")
	dn, dv, du := c17ambrString("dn")
	a := ModelsToSessionAMBR(&models.Ambr{Uplink: up, Downlink: dn})
	ub := a.GetSessionAMBRForUplink()
	db := a.GetSessionAMBRForDownlink()
	vrt.Assert(uint16(ub[0])<<8|uint16(ub[1]) == uv, "session AMBR uplink value is the 16-bit integer, big endian")
	vrt.Assert(a.GetUnitForSessionAMBRForUplink() == uu, "session AMBR uplink unit code")
	vrt.Assert(uint16(db[0])<<8|uint16(db[1]) == dv, "session AMBR downlink value is the 16-bit integer, big endian")
	vrt.Assert(a.GetUnitForSessionAMBRForDownlink() == du, "session AMBR downlink unit code")
}

// time zones on the quarter-hour grid: text +HH:MM / -HH:MM, optional +1 / +2 daylight-saving suffix
func c17zone() (s string, quarters int, neg bool) {
	q := int(vrt.U8("q"))
	vrt.Assume(q <= 79)
	neg = vrt.Bool("neg")
	h, m := q/4, (q%4)*15
	b := []byte{'+', '0' + byte(h/10), '0' + byte(h%10), ':', '0' + byte(m/10), '0' + byte(m%10)}
	if neg {
		b[0] = '-'
	}
	return string(b), q, neg
}

func VH_C17_timezone() {
	s, q, neg := c17zone()
	if neg {
		vrt.Assume(q != 0) // "-00:00" is not a distinct zone
	}
	want := q * 900
	if neg {
		want = -want
	}
	o := uint8(parseTimeZoneToNas(s))
	vrt.Assert(getTimeZoneOffset(o) == want, "time zone octet decodes to the encoded offset")
	tz := EncodeLocalTimeZoneToNas(s)
	vrt.Assert(DecodeLocalTimeZone(tz) == s, "local time zone text -> octet -> text")
	vrt.Assert(DecodeDaylightSavingTime(EncodeDaylightSavingTimeToNas(s)) == "", "no daylight-saving suffix -> value 0")
}

func VH_C17_timezone_dst() {
	s, q, neg := c17zone()
	adj := vrt.Choose("dst", 1, 2)
	sfx := []string{"", "+1", "+2"}[adj]
	full := s + sfx
	// the time zone field carries local time including the daylight-saving adjustment
	want := q * 900
	if neg {
		want = -want
	}
	want += adj * 3600
	vrt.Assume(want >= -79*900 && want <= 79*900)
	o := uint8(parseTimeZoneToNas(full))
	vrt.Assert(getTimeZoneOffset(o) == want, "time zone octet with daylight saving decodes to offset + adjustment")
	d := EncodeDaylightSavingTimeToNas(full)
	vrt.Assert(d.Getvalue() == uint8(adj), "daylight saving value 1 / 2")
	vrt.Assert(DecodeDaylightSavingTime(d) == sfx, "daylight saving value -> text")
}

// network names: GSM 7-bit default alphabet packing (TS 23.038 6.1.2.1.1)
func VH_C17_network_name() {
	hi := 16
	if vrt.Thorough() {
		hi = 64
	}
	L := vrt.Choose("L", 0, hi)
	chars := make([]byte, L)
	for i := range chars {
		chars[i] = vrt.U8(fmt.Sprintf("c%d", i)) & 0x7f
	}
	full := vrt.Bool("full")
	var length uint8
	var buf []uint8
	var spare uint8
	if full {
		n := FullNetworkNameToNas(string(chars))
		length, buf, spare = n.GetLen(), n.Buffer, n.GetNumberOfSpareBitsInLastOctet()
		vrt.Assert(n.GetExt() == 1 && n.GetCodingScheme() == 0 && n.GetAddCI() == 0, "name header: ext 1, GSM default alphabet, no country initials")
	} else {
		n := ShortNetworkNameToNas(string(chars))
		length, buf, spare = n.GetLen(), n.Buffer, n.GetNumberOfSpareBitsInLastOctet()
		vrt.Assert(n.GetExt() == 1 && n.GetCodingScheme() == 0 && n.GetAddCI() == 0, "name header: ext 1, GSM default alphabet, no country initials")
	}
	textOctets := (7*L + 7) / 8
	vrt.Assert(int(length) == 1+textOctets && len(buf) == 1+textOctets, "network name length = 1 + ceil(7L/8)")
	vrt.Assert(int(spare) == (8-(7*L)%8)%8, "number of spare bits in the last octet")
	text := buf[1:]
	for k := 0; k < L; k++ {
		// septet k occupies bits 7k .. 7k+6 of the octet string, least significant bit first
		var c byte
		for b := 0; b < 7; b++ {
			bit := 7*k + b
			c |= ((text[bit/8] >> uint(bit%8)) & 1) << uint(b)
		}
		vrt.Assert(c == chars[k], "unpacking the GSM 7-bit text returns the name")
	}
}

// An encoded name belongs to the caller: editing it in place must not change what encoding the same name returns later,
// and encoding another name must not change an element the caller still holds.
func VH_C17_network_name_held() {
	L := vrt.Choose("L", 0, 9)
	chars := make([]byte, L)
	for i := range chars {
		chars[i] = vrt.U8(fmt.Sprintf("c%d", i)) & 0x7f
	}
	L2 := vrt.Choose("L2", 0, 9)
	other := make([]byte, L2)
	for i := range other {
		other[i] = vrt.U8(fmt.Sprintf("d%d", i)) & 0x7f
	}
	full := vrt.Bool("full")
	enc := func(s string) []uint8 {
		if full {
			n := FullNetworkNameToNas(s)
			return n.Buffer
		}
		n := ShortNetworkNameToNas(s)
		return n.Buffer
	}
	b1 := enc(string(chars))
	keep := append([]uint8{}, b1...)
	b2 := enc(string(other))
	keep2 := append([]uint8{}, b2...)
	vrt.Equal(b1, keep, "an encoded name the caller holds is not changed by encoding another name")
	for i := range b1 {
		b1[i] = ^b1[i] // the caller edits its element in place
	}
	vrt.Equal(b2, keep2, "two encoded names share no memory")
	b3 := enc(string(chars))
	vrt.Equal(b3, keep, "encoding the same name again gives the same octets, whatever happened to the earlier element")
}
