package nasConvert

import (
	"time"

	vrt "github.com/free5gc/nas/zz_verifrt"
)

// universal time and local time zone: every second-resolution instant of 2000-2099 (days 1..28 of each month)
// in every quarter-hour zone decodes to the encoded instant and offset.
func VH_C17_universal_time() {
	yy := int(vrt.U8("yy"))
	mo := int(vrt.U8("mo"))
	d := int(vrt.U8("d"))
	h := int(vrt.U8("h"))
	mi := int(vrt.U8("mi"))
	s := int(vrt.U8("s"))
	q := int(vrt.I8("q"))
	vrt.Assume(yy <= 99 && mo >= 1 && mo <= 12 && d >= 1 && d <= 28 && h <= 23 && mi <= 59 && s <= 59 && q >= -79 && q <= 79)
	off := q * 900
	// daylight saving in effect or not: the offset in effect (standard + 1 h when DST) is what the octet carries
	dst := vrt.Bool("dst")
	if dst {
		vrt.Assume(q-4 >= -79) // the standard-time offset must itself be expressible
	}
	// the rule in force may end (Time.ZoneBounds) and be followed by any standard offset on the grid: the offset in
	// force at the instant is still what is encoded (the library takes daylight saving as one hour, whatever follows)
	nq := int(vrt.I8("nextq"))
	vrt.Assume(nq >= -75 && nq <= 75)
	t := time.Date(2000+yy, time.Month(mo), d, h, mi, s, 0, vrt.ZoneDST2(off, dst, nq*900, vrt.Bool("ruleEnds")))
	n := EncodeUniversalTimeAndLocalTimeZoneToNas(t)
	back := DecodeUniversalTimeAndLocalTimeZone(n)
	vrt.Assert(back.Year() == 2000+yy && int(back.Month()) == mo && back.Day() == d, "universal time: date round-trips")
	vrt.Assert(back.Hour() == h && back.Minute() == mi && back.Second() == s, "universal time: time of day round-trips")
	_, boff := back.Zone()
	vrt.Assert(boff == off, "universal time: zone offset round-trips")
}
