package security

import (
	vrt "github.com/free5gc/nas/zz_verifrt"
)

func c08key(name string) (k [16]byte) {
	copy(k[:], vrt.Bytes(name, 16))
	return
}

// The keystream generators are abstracted as uninterpreted functions of (key, IV) per output word for the laws below
// (C06 proves them equal to the standard generators and word i independent of the number of words requested);
// AES is an uninterpreted function as everywhere.
func c08abstract() {
	vrt.UFSlice("github.com/free5gc/nas/security/snow3g.GetKeyStream", "SNOWKS", 2)
	vrt.UFSlice("github.com/free5gc/nas/security/zuc.Zuc", "ZUCKS", 2)
}

func c08len() int {
	hi := 20
	if vrt.Thorough() {
		hi = 40
	}
	return vrt.Choose("n", 0, hi)
}

// laws of NASEncrypt for the real algorithms (1..3) with valid bearer / direction
func VH_C08_enc_laws() {
	c08abstract()
	n := c08len()
	alg := uint8(vrt.Choose("alg", 1, 3))
	k := c08key("k")
	count := vrt.U32("count")
	bearer := vrt.U8("bearer") & 31
	dir := vrt.U8("dir") & 1
	p := vrt.Bytes("p", n)
	p0 := append([]byte{}, p...)
	ksnap := k
	vrt.Assert(NASEncrypt(alg, k, count, bearer, dir, p) == nil, "NASEncrypt succeeds")
	vrt.Assert(len(p) == n, "ciphering preserves length")
	vrt.Assert(k == ksnap, "the key is not modified")
	c1 := append([]byte{}, p...)
	// involution
	vrt.Assert(NASEncrypt(alg, k, count, bearer, dir, p) == nil, "second NASEncrypt succeeds")
	vrt.Equal(p, p0, "ciphering twice restores the plaintext")
	// keystream independence: c xor p does not depend on p
	q := vrt.Bytes("q", n)
	q0 := append([]byte{}, q...)
	vrt.Assert(NASEncrypt(alg, k, count, bearer, dir, q) == nil, "NASEncrypt of another plaintext succeeds")
	for i := 0; i < n; i++ {
		vrt.Assert(c1[i]^p0[i] == q[i]^q0[i], "ciphertext xor plaintext does not depend on the plaintext")
	}
	// prefix stability
	j := vrt.Choose("j", 0, n)
	pre := append([]byte{}, p0[:j]...)
	vrt.Assert(NASEncrypt(alg, k, count, bearer, dir, pre) == nil, "NASEncrypt of a prefix succeeds")
	vrt.Equal(pre, c1[:j], "the ciphertext of a prefix is the prefix of the ciphertext")
}

// algorithm 0, invalid parameters, unknown algorithms: all 256 x 256 x 256 (alg, bearer, dir)
func VH_C08_enc_validation() {
	c08abstract()
	n := c08len()
	alg, bearer, dir := vrt.U8("alg"), vrt.U8("bearer"), vrt.U8("dir")
	vrt.Assume(alg == 0 || alg > 3 || bearer > 31 || dir > 1)
	k := c08key("k")
	count := vrt.U32("count")
	p := vrt.Bytes("p", n)
	p0 := append([]byte{}, p...)
	err := NASEncrypt(alg, k, count, bearer, dir, p)
	vrt.Equal(p, p0, "NEA0 / rejected calls leave the payload untouched")
	if bearer > 31 || dir > 1 || alg > 3 {
		vrt.Assert(err != nil, "bearer > 31, direction > 1 or unknown algorithm is an error")
	} else {
		vrt.Assert(err == nil, "NEA0 succeeds")
	}
}

func VH_C08_enc_nil() {
	alg, bearer, dir := vrt.U8("alg"), vrt.U8("bearer"), vrt.U8("dir")
	k := c08key("k")
	vrt.Assert(NASEncrypt(alg, k, vrt.U32("count"), bearer, dir, nil) != nil, "nil payload is an error for every algorithm")
	mac, err := NASMacCalculate(alg, k, vrt.U32("count"), bearer, dir, nil)
	vrt.Assert(err != nil && mac == nil, "nil message is an error for every algorithm")
}

func VH_C08_mac_validation() {
	c08abstract()
	n := c08len()
	alg, bearer, dir := vrt.U8("alg"), vrt.U8("bearer"), vrt.U8("dir")
	vrt.Assume(alg == 0 || alg > 3 || bearer > 31 || dir > 1)
	k := c08key("k")
	m := vrt.Bytes("m", n)
	m0 := append([]byte{}, m...)
	mac, err := NASMacCalculate(alg, k, vrt.U32("count"), bearer, dir, m)
	vrt.Equal(m, m0, "the message is never modified")
	if bearer > 31 || dir > 1 || alg > 3 {
		vrt.Assert(err != nil, "bearer > 31, direction > 1 or unknown algorithm is an error (MAC)")
	} else {
		vrt.Assert(err == nil && len(mac) == 4, "NIA0 yields a 4-octet MAC")
		vrt.Assert(mac[0] == 0 && mac[1] == 0 && mac[2] == 0 && mac[3] == 0, "NIA0 MAC is all zero")
	}
}

// MAC for algorithms 1..3: 4 octets, key and message untouched, no panic for any length including empty
func VH_C08_mac_laws() {
	c08abstract()
	n := c08len()
	alg := uint8(vrt.Choose("alg", 1, 3))
	k := c08key("k")
	ksnap := k
	m := vrt.Bytes("m", n)
	m0 := append([]byte{}, m...)
	mac, err := NASMacCalculate(alg, k, vrt.U32("count"), vrt.U8("bearer")&31, vrt.U8("dir")&1, m)
	vrt.Assert(err == nil && len(mac) == 4, "a MAC is exactly 4 octets")
	vrt.Equal(m, m0, "the message is not modified (MAC)")
	vrt.Assert(k == ksnap, "the key is not modified (MAC)")
}

// The message / payload handed in as a window into a larger buffer (msg := buf[:n], spare capacity behind it, as
// when a PDU is sliced out of a receive buffer): nothing behind the window is written, neither by the MAC functions
// (which must not write at all) nor by the ciphers (which rewrite exactly payload[:n]).
func VH_C08_window() {
	c08abstract()
	n := vrt.Choose("n", 0, 17)
	spare := vrt.Choose("spare", 1, 9)
	alg := uint8(vrt.Choose("alg", 0, 3))
	k := c08key("k")
	buf := vrt.Bytes("buf", n+spare)
	snap := append([]byte{}, buf...)
	count, bearer, dir := vrt.U32("count"), vrt.U8("bearer")&31, vrt.U8("dir")&1
	if vrt.Bool("mac") {
		mac, err := NASMacCalculate(alg, k, count, bearer, dir, buf[:n])
		vrt.Assert(err == nil && len(mac) == 4, "a MAC of a window is 4 octets")
		vrt.Equal(buf, snap, "the MAC functions write neither the message nor the buffer behind it")
		return
	}
	vrt.Assert(NASEncrypt(alg, k, count, bearer, dir, buf[:n]) == nil, "NASEncrypt of a window succeeds")
	vrt.Equal(buf[n:], snap[n:], "ciphering writes nothing behind the payload")
}

// A result handed out earlier belongs to the caller: overwriting it (verifying in place, reusing the 4 octets) must not
// change what a later call returns, and a later call must not change a result the caller still holds. Algorithms 0..3.
func VH_C08_results_independent() {
	c08abstract()
	n := vrt.Choose("n", 0, 9)
	alg := uint8(vrt.Choose("alg", 0, 3))
	k := c08key("k")
	m := vrt.Bytes("m", n)
	count, bearer, dir := vrt.U32("count"), vrt.U8("bearer")&31, vrt.U8("dir")&1
	mac1, err1 := NASMacCalculate(alg, k, count, bearer, dir, m)
	vrt.Assert(err1 == nil && len(mac1) == 4, "first MAC is 4 octets")
	keep := append([]byte{}, mac1...)
	scribble := vrt.Bytes("scribble", 4)
	copy(mac1, scribble) // the caller overwrites its own result
	held := append([]byte{}, mac1...)
	mac2, err2 := NASMacCalculate(alg, k, count, bearer, dir, m)
	vrt.Assert(err2 == nil && len(mac2) == 4, "second MAC is 4 octets")
	vrt.Equal(mac2, keep, "the MAC of the same arguments does not depend on what the caller did with an earlier result")
	vrt.Equal(mac1, held, "computing another MAC does not change a result the caller still holds")
	if alg == 0 {
		vrt.Assert(mac2[0] == 0 && mac2[1] == 0 && mac2[2] == 0 && mac2[3] == 0, "NIA0 MAC is all zero on every call")
	}
	// a different message in between
	m3 := vrt.Bytes("m3", vrt.Choose("n3", 0, 3))
	mac3, _ := NASMacCalculate(alg, k, vrt.U32("count3"), bearer, dir, m3)
	copy(mac3, scribble)
	mac4, _ := NASMacCalculate(alg, k, count, bearer, dir, m)
	vrt.Equal(mac4, keep, "the MAC does not depend on earlier calls with other arguments")
	vrt.Equal(mac2, keep, "an earlier result is not changed by later calls")
}
