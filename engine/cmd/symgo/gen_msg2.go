package main

import (
	"fmt"
	"strings"
)

var _ = fmt.Sprint

// ---------- C04: wire format vs table-driven reference ----------

func genC04(c *runCfg) error {
	g, err := newMsgGen(c)
	if err != nil {
		return err
	}
	capLen := 24
	if thorough(c) {
		capLen = 300
	}
	if err := g.common(capLen); err != nil {
		return err
	}
	cutK := 2 // quick: mandatory part + one optional element (any identifier octet, any declared length)
	if thorough(c) {
		cutK = 3 // two optional elements: order, duplicates
	}
	for i := range g.spec.Messages {
		m := &g.spec.Messages[i]
		// decoder side: symbolic-length input, at most two optional elements explored (cut at the third loop entry)
		k := cutK
		nMandVar := 0
		for _, r := range m.Rows {
			if r.Presence != "O" && strings.Contains(r.Format, "L") {
				nMandVar++
			}
		}
		if nMandVar >= 2 && k > 2 {
			// two variable-length mandatory elements already nest two symbolic lengths; a second optional element on top
			// (four nested lengths read from the input) did not finish within the per-harness budget (measured:
			// PDUSessionEstablishmentAccept, 208 paths in 2400 s): such messages keep one optional element in both tiers
			k = 2
		}
		g.w("func VH_C04_%s_dec() {\n", m.Message)
		g.w("\tvrt.CutAt(%q, \"for.body\", %d)\n", decFn(m), k)
		g.w("\tin := vrt.BytesSym(\"in\", 70000)\n")
		g.w("\ta := nasMessage.New%s(0)\n\tvar err error\n", m.Message)
		g.w("\tif vrt.Cut(func() { err = a.Decode%s(&in) }) {\n\t\treturn // more than two optional elements: covered by the iteration argument (DESIGN 5/C04)\n\t}\n", m.Message)
		g.w("\tes, quirk, ok := ref.DecodeQ(zzTbl%s, in)\n", m.Message)
		g.w("\tvrt.Assume(!quirk) // octets 0x08..0x0F are not identifiers of any message (outside the property's quantifier)\n")
		g.w("\tvrt.Assert((err == nil) == ok, \"%s: decoder accepts exactly what the table-driven decoder accepts\")\n", m.Message)
		g.w("\tif ok && err == nil {\n\t\tvrt.Equal(zzElems%s(a), ref.Pad(zzTbl%s, es), \"%s: decoded fields equal the table-driven decoder's\")\n\t}\n}\n\n", m.Message, m.Message, m.Message)
		// the generic entry point accepts exactly the same strings (header + mandatory part; the optional part is the
		// same code as in _dec): nothing in front of the message-specific decoder may reject or rewrite them
		if m.MsgType != nil {
			hl := hdrLen(m)
			epd := "0x7e"
			if m.Family == "gsm" {
				epd = "0x2e"
			}
			g.w("func VH_C04_%s_plain() {\n", m.Message)
			g.w("\tvrt.CutAt(%q, \"for.body\", 1)\n", decFn(m))
			g.w("\tin := vrt.BytesSym(\"in\", 70000)\n\tvrt.Assume(len(in) >= %d)\n\tvrt.Assume(in[0] == %s && in[%d] == %d)\n", hl, epd, hl-1, *m.MsgType)
			g.w("\tmsg := NewMessage()\n\tvar err error\n")
			g.w("\tif vrt.Cut(func() { err = msg.PlainNasDecode(&in) }) {\n\t\treturn // header and mandatory part accepted, optional part entered\n\t}\n")
			g.w("\t_, quirk, ok := ref.DecodeQ(zzTbl%s, in)\n\tvrt.Assume(!quirk)\n", m.Message)
			g.w("\tvrt.Assert((err == nil) == ok, \"%s: PlainNasDecode accepts exactly what the table-driven decoder accepts (header and mandatory part)\")\n}\n\n", m.Message)
		}
		// duplicates: every optional element twice with independently chosen lengths (last one wins, nothing of the first survives)
		if len(optRows(m)) > 0 {
			g.w("func VH_C04_%s_dup() {\n", m.Message)
			g.w("\tj := vrt.Choose(\"row\", 0, %d)\n\tc1 := vrt.Choose(\"cls1\", 0, 3)\n\tc2 := vrt.Choose(\"cls2\", 0, 3)\n", len(optRows(m))-1)
			g.w("\tbase := zzSym%s(0, 0)\n\tfirst := zzSym%s(2+j, c1)\n", m.Message, m.Message)
			g.w("\tin := ref.Encode(zzTbl%s, first)\n", m.Message)
			g.w("\t// second occurrence of the same element with its own symbolic content (names prefixed)\n")
			g.w("\tsecond := zzSymB%s(2+j, c2)\n\tonly := make([]ref.Elem, len(second))\n\tfor i := range only {\n\t\tif zzTbl%s[i].Opt {\n\t\t\tonly[i] = second[i]\n\t\t}\n\t}\n", m.Message, m.Message)
			g.w("\toptOnly := make([]ref.Row, len(zzTbl%s))\n\tcopy(optOnly, zzTbl%s)\n\tfor i := range optOnly {\n\t\tif !optOnly[i].Opt {\n\t\t\toptOnly[i].F = ref.FV\n\t\t\toptOnly[i].N = 0\n\t\t\tonly[i] = ref.Elem{Present: true}\n\t\t}\n\t}\n", m.Message, m.Message)
			g.w("\tin = append(in, ref.Encode(optOnly, only)...)\n\t_ = base\n")
			g.w("\ta := nasMessage.New%s(0)\n\terr := a.Decode%s(&in)\n", m.Message, m.Message)
			g.w("\tes, _, ok := ref.DecodeQ(zzTbl%s, in)\n", m.Message)
			g.w("\tvrt.Assert(ok && err == nil, \"%s: an element occurring twice is accepted\")\n", m.Message)
			g.w("\tvrt.Equal(zzElems%s(a), ref.Pad(zzTbl%s, es), \"%s: the last duplicate wins and nothing of the first occurrence survives\")\n}\n\n", m.Message, m.Message, m.Message)
		}
		// encoder side on the shape families
		g.w("func VH_C04_%s_enc() {\n", m.Message)
		g.w("\tshape := vrt.Choose(\"shape\", 0, zzNShapes%s-1)\n\tcls := vrt.Choose(\"cls\", 0, 3+zzNVar%s)\n", m.Message, m.Message)
		g.w("\tif cls >= 4 {\n\t\tvrt.Assume(shape == 1) // one element of every length of its range, all optional elements present at minimum length\n\t}\n")
		g.w("\tes := zzSym%s(shape, cls)\n\ta := zzBuild%s(es)\n\tbuf := new(bytes.Buffer)\n", m.Message, m.Message)
		g.w("\terr := a.Encode%s(buf)\n\tvrt.Assert(err == nil, \"%s: encoding a well-formed message succeeds\")\n", m.Message, m.Message)
		g.w("\tvrt.Equal(buf.Bytes(), ref.Encode(zzTbl%s, es), \"%s: encoder output equals the table-driven encoding\")\n}\n\n", m.Message, m.Message)
	}
	return g.finish(c, "C04")
}

// ---------- C02: encode then decode ----------

func genC02(c *runCfg) error {
	g, err := newMsgGen(c)
	if err != nil {
		return err
	}
	capLen := 24
	if thorough(c) {
		capLen = 300
	}
	if err := g.common(capLen); err != nil {
		return err
	}
	for i := range g.spec.Messages {
		m := &g.spec.Messages[i]
		g.w("func VH_C02_%s() {\n", m.Message)
		g.w("\tshape := vrt.Choose(\"shape\", 0, zzNShapes%s-1)\n\tcls := vrt.Choose(\"cls\", 0, 3+zzNVar%s)\n", m.Message, m.Message)
		g.w("\tif cls >= 4 {\n\t\tvrt.Assume(shape == 1) // one element of every length of its range, all optional elements present at minimum length\n\t}\n")
		g.w("\tes := zzSym%s(shape, cls)\n\ta := zzBuild%s(es)\n", m.Message, m.Message)
		if m.MsgType == nil {
			g.w("\tbuf := new(bytes.Buffer)\n\terr := a.Encode%s(buf)\n\tvrt.Assert(err == nil, \"%s: encode succeeds\")\n", m.Message, m.Message)
			g.w("\tout := buf.Bytes()\n\tb := nasMessage.New%s(0)\n\terr = b.Decode%s(&out)\n", m.Message, m.Message)
			g.w("\tvrt.Assert(err == nil, \"%s: decoding the encoding succeeds\")\n\tvrt.Equal(b, a, \"%s: decode(encode(m)) == m\")\n}\n\n", m.Message, m.Message)
			continue
		}
		fam, hdr, enc := "GmmMessage", "GmmHeader", "Gmm"
		if m.Family == "gsm" {
			fam, hdr, enc = "GsmMessage", "GsmHeader", "Gsm"
		}
		_ = enc
		// well-formedness: the message identity octet names this message; header view = body's header octets
		mi := 2
		if m.Family == "gsm" {
			mi = 3
		}
		g.w("\tvrt.Assume(es[%d].V[0] == %d)\n", mi, *m.MsgType)
		g.w("\tmsg := NewMessage()\n\tmsg.%s = New%s()\n\tmsg.%s.%s = a\n", fam, fam, fam, m.Message)
		for k := 0; k <= mi; k++ {
			g.w("\tmsg.%s.%s.Octet[%d] = es[%d].V[0]\n", fam, hdr, k, k)
		}
		g.w("\tout, err := msg.PlainNasEncode()\n\tvrt.Assert(err == nil, \"%s: PlainNasEncode succeeds\")\n", m.Message)
		epdv := "0x7e"
		if m.Family == "gsm" {
			epdv = "0x2e"
		}
		g.w("\tvrt.Assume(es[0].V[0] == %s) // the discriminator octet of the family is part of well-formedness\n", epdv)
		g.w("\tback := NewMessage()\n\terr = back.PlainNasDecode(&out)\n\tvrt.Assert(err == nil, \"%s: decoding the encoding succeeds\")\n", m.Message)
		g.w("\tvrt.Assert(back.%s != nil && back.%s.%s != nil, \"%s: the same body is populated\")\n", fam, fam, m.Message, m.Message)
		g.w("\tvrt.Equal(back.%s.%s, a, \"%s: decode(encode(m)) == m\")\n", fam, m.Message, m.Message)
		g.w("\tvrt.Assert(back.%s.%s == msg.%s.%s, \"%s: header view round-trips\")\n}\n\n", fam, hdr, fam, hdr, m.Message)
	}
	return g.finish(c, "C02")
}

// ---------- C03: re-encoding is stable; canonical input is reproduced ----------

func genC03(c *runCfg) error {
	g, err := newMsgGen(c)
	if err != nil {
		return err
	}
	capLen := 16
	if thorough(c) {
		capLen = 64
	}
	if err := g.common(capLen); err != nil {
		return err
	}
	T := 3
	if thorough(c) {
		T = 5
	}
	for i := range g.spec.Messages {
		m := &g.spec.Messages[i]
		if m.MsgType == nil {
			continue
		}
		h := hdrLen(m)
		epd := "0x7e"
		if m.Family == "gsm" {
			epd = "0x2e"
		}
		// (a) arbitrary short inputs
		g.w("func VH_C03_%s_fix() {\n", m.Message)
		g.w("\tn := vrt.Choose(\"n\", %d, %d)\n\tin := vrt.Bytes(\"in\", n)\n", h+mandMin(m), h+mandMin(m)+T)
		g.w("\tvrt.Assume(in[0] == %s && in[%d] == %d)\n", epd, h-1, *m.MsgType)
		g.w("\tzzFixpoint(in, \"%s\")\n}\n\n", m.Message)
		// (a') an optional element occurring twice (the second with its own content and length): whatever the decoder
		// keeps of the first occurrence must not make the second decode differ from the first
		if len(optRows(m)) > 0 {
			g.w("func VH_C03_%s_dup() {\n", m.Message)
			g.w("\tj := vrt.Choose(\"row\", 0, %d)\n\tc1 := vrt.Choose(\"cls1\", 0, 3)\n\tc2 := vrt.Choose(\"cls2\", 0, 3)\n", len(optRows(m))-1)
			g.w("\tfirst := zzSym%s(2+j, c1)\n", m.Message)
			g.w("\tvrt.Assume(first[0].V[0] == %s && first[%d].V[0] == %d)\n", epd, h-1, *m.MsgType)
			g.w("\tin := ref.Encode(zzTbl%s, first)\n", m.Message)
			g.w("\tsecond := zzSymB%s(2+j, c2)\n\tonly := make([]ref.Elem, len(second))\n\tfor i := range only {\n\t\tif zzTbl%s[i].Opt {\n\t\t\tonly[i] = second[i]\n\t\t}\n\t}\n", m.Message, m.Message)
			g.w("\toptOnly := make([]ref.Row, len(zzTbl%s))\n\tcopy(optOnly, zzTbl%s)\n\tfor i := range optOnly {\n\t\tif !optOnly[i].Opt {\n\t\t\toptOnly[i].F = ref.FV\n\t\t\toptOnly[i].N = 0\n\t\t\tonly[i] = ref.Elem{Present: true}\n\t\t}\n\t}\n", m.Message, m.Message)
			g.w("\tin = append(in, ref.Encode(optOnly, only)...)\n")
			g.w("\tzzFixpoint(in, \"%s (duplicate element)\")\n}\n\n", m.Message)
		}
		// (b) decoder post-condition: whatever is accepted is well-formed (declared length = content length, within
		// bounds), i.e. lies in the domain of the round-trip property C02; symbolic-length input, one optional element
		g.w("func VH_C03_%s_wf() {\n", m.Message)
		g.w("\tvrt.CutAt(%q, \"for.body\", 2)\n", decFn(m))
		g.w("\tin := vrt.BytesSym(\"in\", 70000)\n\ta := nasMessage.New%s(0)\n\tvar err error\n", m.Message)
		g.w("\tif vrt.Cut(func() { err = a.Decode%s(&in) }) || err != nil {\n\t\treturn\n\t}\n", m.Message)
		g.w("\tvrt.Assert(ref.WellFormed(zzTbl%s, zzElems%s(a)), \"%s: every accepted input decodes to a well-formed message (Len = content length, within bounds)\")\n}\n\n", m.Message, m.Message, m.Message)
		// (c) canonical inputs: reference encodings of well-formed messages
		fam := "GmmMessage"
		if m.Family == "gsm" {
			fam = "GsmMessage"
		}
		mi := h - 1
		g.w("func VH_C03_%s_canon() {\n", m.Message)
		g.w("\tshape := vrt.Choose(\"shape\", 0, zzNShapes%s-1)\n\tcls := vrt.Choose(\"cls\", 0, 3)\n", m.Message)
		g.w("\tes := zzSym%s(shape, cls)\n", m.Message)
		g.w("\tvrt.Assume(es[0].V[0] == %s && es[%d].V[0] == %d)\n", epd, mi, *m.MsgType)
		g.w("\tin := ref.Encode(zzTbl%s, es)\n", m.Message)
		g.w("\tm1 := NewMessage()\n\terr := m1.PlainNasDecode(&in)\n\tvrt.Assert(err == nil, \"%s: a canonical encoding is accepted\")\n", m.Message)
		g.w("\tvrt.Assert(m1.%s != nil && m1.%s.%s != nil, \"%s: canonical input selects this body\")\n", fam, fam, m.Message, m.Message)
		g.w("\tout, err := m1.PlainNasEncode()\n\tvrt.Assert(err == nil, \"%s: re-encoding succeeds\")\n", m.Message)
		g.w("\tvrt.Equal(out, in, \"%s: re-encoding a canonical input reproduces it byte for byte\")\n}\n\n", m.Message)
	}
	g.w(`func zzFixpoint(in []byte, what string) {
	m1 := NewMessage()
	if m1.PlainNasDecode(&in) != nil {
		return
	}
	out1, err := m1.PlainNasEncode()
	vrt.Assert(err == nil, what+": re-encoding a decoded message succeeds")
	m2 := NewMessage()
	err = m2.PlainNasDecode(&out1)
	vrt.Assert(err == nil, what+": decoding the re-encoding succeeds")
	vrt.Equal(m2, m1, what+": decoding the re-encoding yields the same message")
	out2, err := m2.PlainNasEncode()
	vrt.Assert(err == nil, what+": encoding once more succeeds")
	vrt.Equal(out2, out1, what+": encoding once more yields identical bytes (fixed point)")
}

`)
	return g.finish(c, "C03")
}

// ---------- C10: purity ----------

func genC10(c *runCfg) error {
	g, err := newMsgGen(c)
	if err != nil {
		return err
	}
	if err := g.common(12); err != nil {
		return err
	}
	T := 3
	if thorough(c) {
		T = 5
	}
	for i := range g.spec.Messages {
		m := &g.spec.Messages[i]
		if m.MsgType == nil {
			continue
		}
		h := hdrLen(m)
		epd := "0x7e"
		fam := "GmmMessage"
		if m.Family == "gsm" {
			epd = "0x2e"
			fam = "GsmMessage"
		}
		// decode purity on arbitrary (accepted and rejected) inputs
		g.w("func VH_C10_%s_dec() {\n", m.Message)
		g.w("\tn := vrt.Choose(\"n\", %d, %d)\n\tin := vrt.Bytes(\"in\", n)\n", h, h+mandMin(m)+T)
		g.w("\tvrt.Assume(in[0] == %s && in[%d] == %d)\n", epd, h-1, *m.MsgType)
		g.w("\tsnap := vrt.Snapshot(in)\n\tm1 := NewMessage()\n\terr := m1.PlainNasDecode(&in)\n")
		g.w("\tvrt.Assert(vrt.Unchanged(snap), \"%s: decoding does not modify the input bytes\")\n", m.Message)
		g.w("\tvrt.Assert(!vrt.Shares(m1, in), \"%s: the decoded message shares no memory with the input\")\n", m.Message)
		g.w("\tif err == nil {\n\t\tm2 := NewMessage()\n\t\terr2 := m2.PlainNasDecode(&in)\n\t\tvrt.Assert(err2 == nil, \"%s: decoding is deterministic (accept)\")\n\t\tvrt.Equal(m2, m1, \"%s: decoding is deterministic (value)\")\n\t}\n}\n\n", m.Message, m.Message)
		// decode purity with a symbolic-length input: mandatory part + one optional element of any identifier and any length
		g.w("func VH_C10_%s_ie() {\n", m.Message)
		g.w("\tvrt.CutAt(%q, \"for.body\", 2)\n", decFn(m))
		g.w("\tin := vrt.BytesSym(\"in\", 70000)\n\tsnap := vrt.Snapshot(in)\n")
		g.w("\ta := nasMessage.New%s(0)\n", m.Message)
		g.w("\tvrt.Cut(func() { _ = a.Decode%s(&in) })\n", m.Message)
		g.w("\tvrt.Assert(vrt.Unchanged(snap), \"%s: decoding does not modify the input bytes (any element, any length)\")\n", m.Message)
		g.w("\tvrt.Assert(!vrt.Shares(a, in), \"%s: no decoded element aliases the input (any element, any length)\")\n}\n\n", m.Message)
		// encode purity on well-formed messages, into a buffer with pre-existing content
		g.w("func VH_C10_%s_enc() {\n", m.Message)
		g.w("\tshape := vrt.Choose(\"shape\", 0, 1+min(1, zzNShapes%s-2))\n\tcls := vrt.Choose(\"cls\", 0, 1)\n", m.Message)
		g.w("\tes := zzSym%s(shape, cls)\n\ta := zzBuild%s(es)\n", m.Message, m.Message)
		g.w("\tpl := vrt.Choose(\"prefixLen\", 0, 3)\n\tprefix := vrt.Bytes(\"prefix\", pl)\n\tpre := append([]byte{}, prefix...)\n")
		g.w("\tbuf := bytes.NewBuffer(prefix)\n\tsnap := vrt.Snapshot(a)\n\terr := a.Encode%s(buf)\n", m.Message)
		g.w("\tvrt.Assert(err == nil, \"%s: encode succeeds\")\n", m.Message)
		g.w("\tvrt.Assert(vrt.Unchanged(snap), \"%s: encoding does not modify the message\")\n", m.Message)
		g.w("\tout := buf.Bytes()\n\tvrt.Assert(len(out) >= pl, \"%s: encoding only appends\")\n", m.Message)
		g.w("\tvrt.Equal(out[:pl], pre, \"%s: pre-existing buffer content is kept\")\n", m.Message)
		g.w("\tfresh := new(bytes.Buffer)\n\t_ = a.Encode%s(fresh)\n\tvrt.Equal(out[pl:], fresh.Bytes(), \"%s: appended bytes do not depend on the buffer's prior content; encoding is deterministic\")\n", m.Message, m.Message)
		g.w("\t_ = %q\n}\n\n", fam)
		// the same through the generic entry points: a Message built through the API (header octets arbitrary except
		// the message type, as callers set only that) is not modified by PlainNasEncode / the family encoder
		if m.MsgType != nil {
			hdr, enc := "GmmHeader", "GmmMessageEncode"
			hn := 3
			if m.Family == "gsm" {
				hdr, enc, hn = "GsmHeader", "GsmMessageEncode", 4
			}
			g.w("func VH_C10_%s_encp() {\n", m.Message)
			g.w("\tes := zzSym%s(vrt.Choose(\"shape\", 0, 1), 0)\n\ta := zzBuild%s(es)\n", m.Message, m.Message)
			g.w("\tmsg := NewMessage()\n\tmsg.%s = New%s()\n\tmsg.%s.%s = a\n", fam, fam, fam, m.Message)
			for k := 0; k < hn-1; k++ {
				g.w("\tmsg.%s.%s.Octet[%d] = vrt.U8(\"h%d\")\n", fam, hdr, k, k)
			}
			g.w("\tmsg.%s.%s.SetMessageType(%d)\n", fam, hdr, *m.MsgType)
			g.w("\tsnap := vrt.Snapshot(msg)\n\tvar out []byte\n\tvar err error\n")
			g.w("\tif vrt.Bool(\"viaPlain\") {\n\t\tout, err = msg.PlainNasEncode()\n\t} else {\n")
			g.w("\t\t// the family encoder appends to a caller-supplied buffer that may already hold octets (an envelope, another message)\n")
			g.w("\t\tpl := vrt.Choose(\"prefixLen\", 0, 4)\n\t\tprefix := vrt.Bytes(\"prefix\", pl)\n\t\tpre := append([]byte{}, prefix...)\n\t\tb := bytes.NewBuffer(prefix)\n\t\terr = msg.%s(b)\n", enc)
			g.w("\t\tif err == nil {\n\t\t\tvrt.Assert(b.Len() >= pl, \"%s: the family encoder only appends\")\n\t\t\tvrt.Equal(b.Bytes()[:pl], pre, \"%s: octets already in the buffer are kept\")\n\t\t\tout = append([]byte{}, b.Bytes()[pl:]...)\n\t\t}\n\t}\n", m.Message, m.Message)
			g.w("\tvrt.Assert(err == nil, \"%s: encoding through the generic entry point succeeds\")\n", m.Message)
			g.w("\tvrt.Assert(vrt.Unchanged(snap), \"%s: PlainNasEncode / family encoder do not modify the message (header view included)\")\n", m.Message)
			g.w("\tout2, err2 := msg.PlainNasEncode()\n\tvrt.Assert(err2 == nil, \"%s: encoding again succeeds\")\n\tvrt.Equal(out2, out, \"%s: encoding again yields the same bytes\")\n}\n\n", m.Message, m.Message)
		}
	}
	// results held across calls (one harness per message):
	//  _two: two messages of the type encoded one after the other through PlainNasEncode - the octets returned for the first
	//        are the caller's: not changed by the second call, no memory shared, and scribbling on them does not change a later result
	//  _redecode: a message value decoded into twice - a by-value copy kept from the first decode still equals a fresh decode
	//        of the first input (the second decode hands out fresh memory instead of rewriting what it handed out before)
	for i := range g.spec.Messages {
		m := &g.spec.Messages[i]
		if m.MsgType == nil {
			continue
		}
		h := hdrLen(m)
		fam, hdr, hn := "GmmMessage", "GmmHeader", 3
		if m.Family == "gsm" {
			fam, hdr, hn = "GsmMessage", "GsmHeader", 4
		}
		g.w("func VH_C10_%s_two() {\n", m.Message)
		g.w("\tmk := func(es []ref.Elem, tag string) *Message {\n\t\tmsg := NewMessage()\n\t\tmsg.%s = New%s()\n\t\tmsg.%s.%s = zzBuild%s(es)\n", fam, fam, fam, m.Message, m.Message)
		for k := 0; k < hn-1; k++ {
			g.w("\t\tmsg.%s.%s.Octet[%d] = vrt.U8(tag + \"h%d\")\n", fam, hdr, k, k)
		}
		g.w("\t\tmsg.%s.%s.SetMessageType(%d)\n\t\treturn msg\n\t}\n", fam, hdr, *m.MsgType)
		g.w("\tm1 := mk(zzSym%s(vrt.Choose(\"shape\", 0, 1), 0), \"a\")\n\tm2 := mk(zzSymB%s(vrt.Choose(\"shapeB\", 0, 1), 0), \"b\")\n", m.Message, m.Message)
		g.w("\tout1, err1 := m1.PlainNasEncode()\n\tvrt.Assert(err1 == nil, \"%s: first encode succeeds\")\n\tkeep1 := append([]byte{}, out1...)\n", m.Message)
		g.w("\tout2, err2 := m2.PlainNasEncode()\n\tvrt.Assert(err2 == nil, \"%s: second encode succeeds\")\n\tkeep2 := append([]byte{}, out2...)\n", m.Message)
		g.w("\tvrt.Equal(out1, keep1, \"%s: the octets returned for one message are not changed by encoding another\")\n", m.Message)
		g.w("\tfor i := range out1 {\n\t\tout1[i] = ^out1[i]\n\t}\n")
		g.w("\tvrt.Equal(out2, keep2, \"%s: two encodings share no memory\")\n", m.Message)
		g.w("\tout3, err3 := m1.PlainNasEncode()\n\tvrt.Assert(err3 == nil, \"%s: encoding the first message again succeeds\")\n", m.Message)
		g.w("\tvrt.Equal(out3, keep1, \"%s: encoding is a function of the message, whatever happened to an earlier result\")\n", m.Message)
		g.w("\tvrt.Equal(out2, keep2, \"%s: an earlier result is not changed by a later encode\")\n}\n\n", m.Message)

		g.w("func VH_C10_%s_redecode() {\n", m.Message)
		g.w("\tin1 := vrt.Bytes(\"in\", vrt.Choose(\"n\", %d, %d))\n", h+mandMin(m), h+mandMin(m)+2)
		g.w("\tin2 := vrt.Bytes(\"inb\", vrt.Choose(\"nb\", %d, %d))\n", h+mandMin(m), h+mandMin(m)+1)
		g.w("\ta := nasMessage.New%s(0)\n\tif a.Decode%s(&in1) != nil {\n\t\treturn\n\t}\n", m.Message, m.Message)
		g.w("\tc1 := *a // the caller keeps the first result by value\n\t_ = a.Decode%s(&in2)\n", m.Message)
		g.w("\tf := nasMessage.New%s(0)\n\tvrt.Assert(f.Decode%s(&in1) == nil, \"%s: decoding is deterministic (accept again)\")\n", m.Message, m.Message, m.Message)
		g.w("\tvrt.Equal(&c1, f, \"%s: a message kept from an earlier decode is not changed by decoding into the same value again\")\n}\n\n", m.Message)
	}
	return g.finish(c, "C10")
}

// ---------- C05: dispatch ----------

func genC05(c *runCfg) error {
	g, err := newMsgGen(c)
	if err != nil {
		return err
	}
	if err := g.common(8); err != nil {
		return err
	}
	// table of message types per family
	g.w("// zzBodyIndex reports which body pointers of a decoded message are set: the message type per family, -1 none, -2 several.\n")
	for _, fam := range []string{"gmm", "gsm"} {
		F := "GmmMessage"
		if fam == "gsm" {
			F = "GsmMessage"
		}
		g.w("func zzBody%s(m *%s) (typ int, count int) {\n\ttyp = -1\n", F, F)
		for i := range g.spec.Messages {
			m := &g.spec.Messages[i]
			if m.Family != fam {
				continue
			}
			mt := -100
			if m.MsgType != nil {
				mt = *m.MsgType
			}
			g.w("\tif m.%s != nil {\n\t\ttyp = %d\n\t\tcount++\n\t}\n", m.Message, mt)
		}
		g.w("\treturn\n}\n\n")
		g.w("func zzKnown%s(t uint8) bool {\n\tswitch t {\n\tcase ", F)
		first := true
		for i := range g.spec.Messages {
			m := &g.spec.Messages[i]
			if m.Family != fam || m.MsgType == nil {
				continue
			}
			if !first {
				g.w(", ")
			}
			first = false
			g.w("%d", *m.MsgType)
		}
		g.w(":\n\t\treturn true\n\t}\n\treturn false\n}\n\n")
	}
	// per message: header view agrees with body header octets on successful decode
	for i := range g.spec.Messages {
		m := &g.spec.Messages[i]
		if m.MsgType == nil {
			continue
		}
		F, H := "GmmMessage", "GmmHeader"
		if m.Family == "gsm" {
			F, H = "GsmMessage", "GsmHeader"
		}
		g.w("func zzHdrAgree%s(msg *Message) bool {\n\tb := msg.%s.%s\n\th := msg.%s.%s\n\treturn ", m.Message, F, m.Message, F, H)
		h := hdrLen(m)
		for k := 0; k < h; k++ {
			if k > 0 {
				g.w(" && ")
			}
			g.w("h.Octet[%d] == b.%s.Octet", k, m.Rows[k].Name)
		}
		g.w("\n}\n\n")
	}
	g.w("func zzHdrAgree(msg *Message) bool {\n")
	for i := range g.spec.Messages {
		m := &g.spec.Messages[i]
		if m.MsgType == nil {
			continue
		}
		F := "GmmMessage"
		if m.Family == "gsm" {
			F = "GsmMessage"
		}
		g.w("\tif msg.%s != nil && msg.%s.%s != nil {\n\t\treturn zzHdrAgree%s(msg)\n\t}\n", F, F, m.Message, m.Message)
	}
	g.w("\treturn false\n}\n\n")
	// encode dispatch: one body set, symbolic header type
	for i := range g.spec.Messages {
		m := &g.spec.Messages[i]
		if m.MsgType == nil {
			continue
		}
		F, H, E := "GmmMessage", "GmmHeader", "GmmMessageEncode"
		if m.Family == "gsm" {
			F, H, E = "GsmMessage", "GsmHeader", "GsmMessageEncode"
		}
		g.w("func VH_C05_enc_%s() {\n", m.Message)
		g.w("\tes := zzSym%s(0, 0)\n\ta := zzBuild%s(es)\n\tmsg := NewMessage()\n\tmsg.%s = New%s()\n\tmsg.%s.%s = a\n", m.Message, m.Message, F, F, F, m.Message)
		g.w("\tt := vrt.U8(\"type\")\n\tmsg.%s.%s.SetMessageType(t)\n", F, H)
		g.w("\t// only this body is set: every other known type would dereference a nil body (outside the property as read, DESIGN 5/C05)\n")
		g.w("\tvrt.Assume(t == %d || !zzKnown%s(t))\n", *m.MsgType, F)
		g.w("\tbuf := new(bytes.Buffer)\n\terr := msg.%s(buf)\n", E)
		g.w("\tif t == %d {\n\t\tvrt.Assert(err == nil, \"%s: encode dispatches to the body named by the header type\")\n", *m.MsgType, m.Message)
		g.w("\t\tdirect := new(bytes.Buffer)\n\t\t_ = a.Encode%s(direct)\n\t\tvrt.Equal(buf.Bytes(), direct.Bytes(), \"%s: dispatcher output = the body's own encoding\")\n", m.Message, m.Message)
		g.w("\t} else {\n\t\tvrt.Assert(err != nil, \"%s: unknown message type is an encode error\")\n\t}\n}\n\n", m.Message)
	}
	// decode dispatch, per message: every input length 0..min+2, header octets selecting this message
	for i := range g.spec.Messages {
		m := &g.spec.Messages[i]
		if m.MsgType == nil {
			continue
		}
		h := hdrLen(m)
		epd, F, entry := "0x7e", "Gmm", "GmmMessageDecode"
		if m.Family == "gsm" {
			epd, F, entry = "0x2e", "Gsm", "GsmMessageDecode"
		}
		g.w("func VH_C05_dec_%s() {\n", m.Message)
		g.w("\tn := vrt.Choose(\"n\", 0, %d)\n\tin := vrt.Bytes(\"in\", n)\n", h+mandMin(m)+2)
		g.w("\tif n > 0 {\n\t\tvrt.Assume(in[0] == %s)\n\t}\n\tif n > %d {\n\t\tvrt.Assume(in[%d] == %d)\n\t}\n", epd, h-1, h-1, *m.MsgType)
		g.w("\tmsg := zzC05receiver()\n\tvar err error\n\tif vrt.Bool(\"viaPlain\") {\n\t\terr = msg.PlainNasDecode(&in)\n\t} else {\n\t\terr = msg.%s(&in)\n\t}\n", entry)
		g.w("\tif err == nil {\n\t\tvrt.Reach(\"%s accepted\")\n\t\tzzC05post%s(msg, in)\n\t\tvrt.Assert(msg.%sMessage.%s != nil, \"%s: the body named by the message type is populated\")\n\t}\n}\n\n", m.Message, F, F, m.Message, m.Message)
	}
	// routing does not depend on anything but the discriminator and the message type: inputs of EVERY length 0..70000
	// (symbolic length; mandatory part and at most one optional element, the decoder is cut at its second loop entry) are
	// accepted by the discriminator-dispatched entry point exactly when the family entry point accepts them, with the same body
	for i := range g.spec.Messages {
		m := &g.spec.Messages[i]
		if m.MsgType == nil {
			continue
		}
		h := hdrLen(m)
		epd, entry, F := "0x7e", "GmmMessageDecode", "Gmm"
		if m.Family == "gsm" {
			epd, entry, F = "0x2e", "GsmMessageDecode", "Gsm"
		}
		g.w("func VH_C05_anylen_%s() {\n", m.Message)
		g.w("\tvrt.CutAt(%q, \"for.body\", 2)\n", decFn(m))
		g.w("\tin := vrt.BytesSym(\"in\", 70000)\n\tvrt.Assume(len(in) >= %d)\n\tvrt.Assume(in[0] == %s && in[%d] == %d)\n", h, epd, h-1, *m.MsgType)
		g.w("\tm1, m2 := zzC05receiver(), NewMessage()\n\tvar e1, e2 error\n")
		g.w("\tif vrt.Cut(func() { e2 = m2.%s(&in) }) {\n\t\treturn\n\t}\n", entry)
		g.w("\tif vrt.Cut(func() { e1 = m1.PlainNasDecode(&in) }) {\n\t\treturn\n\t}\n")
		g.w("\tvrt.Assert((e1 == nil) == (e2 == nil), \"%s: PlainNasDecode accepts an input of any length exactly when %s does\")\n", m.Message, entry)
		g.w("\tif e1 == nil {\n\t\tvrt.Assert(m1.%sMessage != nil && m1.%sMessage.%s != nil, \"%s: input of any length populates the body named by the message type\")\n", F, F, m.Message, m.Message)
		g.w("\t\tvrt.Equal(m1.%sMessage, m2.%sMessage, \"%s: both entry points yield the same body for an input of any length\")\n\t}\n}\n\n", F, F, m.Message)
	}
	g.w(`func zzC05postGmm(msg *Message, in []byte) {
	vrt.Assert(len(in) >= 3, "accepted 5GMM input is at least a header long")
	vrt.Assert(msg.GmmMessage != nil && msg.GsmMessage == nil, "5GMM input populates only the 5GMM family")
	typ, count := zzBodyGmmMessage(msg.GmmMessage)
	vrt.Assert(count == 1, "exactly one 5GMM body populated")
	vrt.Assert(typ == int(in[2]), "the populated 5GMM body is the one named by the message type octet")
	vrt.Assert(zzKnownGmmMessage(in[2]), "accepted 5GMM message type is a known type")
	vrt.Assert(zzHdrAgree(msg), "5GMM header view agrees with the body's own header octets")
	vrt.Assert(msg.GmmMessage.GmmHeader.Octet[0] == in[0] && msg.GmmMessage.GmmHeader.Octet[1] == in[1] && msg.GmmMessage.GmmHeader.Octet[2] == in[2], "5GMM header view = first three octets")
}

func zzC05postGsm(msg *Message, in []byte) {
	vrt.Assert(len(in) >= 4, "accepted 5GSM input is at least a header long")
	vrt.Assert(msg.GsmMessage != nil && msg.GmmMessage == nil, "5GSM input populates only the 5GSM family")
	typ, count := zzBodyGsmMessage(msg.GsmMessage)
	vrt.Assert(count == 1, "exactly one 5GSM body populated")
	vrt.Assert(typ == int(in[3]), "the populated 5GSM body is the one named by the message type octet")
	vrt.Assert(zzKnownGsmMessage(in[3]), "accepted 5GSM message type is a known type")
	vrt.Assert(zzHdrAgree(msg), "5GSM header view agrees with the body's own header octets")
	vrt.Assert(msg.GsmMessage.GsmHeader.Octet[0] == in[0] && msg.GsmMessage.GsmHeader.Octet[1] == in[1] && msg.GsmMessage.GsmHeader.Octet[2] == in[2] && msg.GsmMessage.GsmHeader.Octet[3] == in[3], "5GSM header view = first four octets")
}

// all (discriminator, type) pairs on short inputs through the discriminator-dispatched entry point
// zzC05receiver: the Message decoded into. Its outer security-header fields (filled by callers from the security
// protected envelope, never by the decoders) are arbitrary: routing depends on the input octets only.
func zzC05receiver() *Message {
	msg := NewMessage()
	msg.SecurityHeader = SecurityHeader{ProtocolDiscriminator: vrt.U8("rcvPD"), SecurityHeaderType: vrt.U8("rcvSHT"), MessageAuthenticationCode: vrt.U32("rcvMAC"), SequenceNumber: vrt.U8("rcvSQN")}
	return msg
}

func VH_C05_dec_any() {
	n := vrt.Choose("n", 0, 5)
	in := vrt.Bytes("in", n)
	msg := zzC05receiver()
	err := msg.PlainNasDecode(&in)
	if err == nil {
		vrt.Assert(n > 0 && (in[0] == 0x7e || in[0] == 0x2e), "only the two 5GS discriminators are accepted")
		if in[0] == 0x7e {
			zzC05postGmm(msg, in)
		} else {
			zzC05postGsm(msg, in)
		}
		return
	}
	vrt.Reach("rejected")
}

func VH_C05_dec_mustreject() {
	n := vrt.Choose("n", 0, 9)
	in := vrt.Bytes("in", n)
	bad := n == 0
	if n > 0 && in[0] != 0x7e && in[0] != 0x2e {
		bad = true
	}
	if n > 0 && in[0] == 0x7e && (n < 3 || !zzKnownGmmMessage(in[2])) {
		bad = true
	}
	if n > 0 && in[0] == 0x2e && (n < 4 || !zzKnownGsmMessage(in[3])) {
		bad = true
	}
	vrt.Assume(bad)
	msg := zzC05receiver()
	vrt.Assert(msg.PlainNasDecode(&in) != nil, "unknown discriminator / unknown message type / shorter than a header is rejected (PlainNasDecode)")
	if n >= 1 && in[0] == 0x7e {
		m2 := NewMessage()
		vrt.Assert(m2.GmmMessageDecode(&in) != nil, "unknown 5GMM type or short header rejected (GmmMessageDecode)")
	}
	if n >= 1 && in[0] == 0x2e {
		m3 := NewMessage()
		vrt.Assert(m3.GsmMessageDecode(&in) != nil, "unknown 5GSM type or short header rejected (GsmMessageDecode)")
	}
}

// A Message value that already went through a decode (successful or not) of the same family: the result of the
// next successful decode is still exactly the one body named by its message type. (Across families the library
// keeps the other family's pointer as it was - an observation recorded in DESIGN.md, not asserted here.)
func VH_C05_reuse_gsm() {
	n1 := vrt.Choose("n1", 0, 5)
	first := vrt.Bytes("first", n1)
	if n1 > 0 {
		vrt.Assume(first[0] == 0x2e)
	}
	msg := NewMessage()
	_ = msg.PlainNasDecode(&first)
	n2 := vrt.Choose("n2", 4, 5)
	in := vrt.Bytes("in", n2)
	vrt.Assume(in[0] == 0x2e)
	if msg.PlainNasDecode(&in) == nil {
		vrt.Reach("second 5GSM decode accepted")
		zzC05postGsm(msg, in)
	}
}

func VH_C05_reuse_gmm() {
	n1 := vrt.Choose("n1", 0, 4)
	first := vrt.Bytes("first", n1)
	if n1 > 0 {
		vrt.Assume(first[0] == 0x7e)
	}
	msg := NewMessage()
	_ = msg.PlainNasDecode(&first)
	n2 := vrt.Choose("n2", 3, 4)
	in := vrt.Bytes("in", n2)
	vrt.Assume(in[0] == 0x7e)
	if msg.PlainNasDecode(&in) == nil {
		vrt.Reach("second 5GMM decode accepted")
		zzC05postGmm(msg, in)
	}
}

func VH_C05_nil_and_empty() {
	msg := NewMessage()
	vrt.Assert(msg.PlainNasDecode(nil) != nil, "nil input is rejected")
	empty := []byte{}
	vrt.Assert(msg.PlainNasDecode(&empty) != nil, "empty input is rejected")
	e := NewMessage()
	_, err := e.PlainNasEncode()
	vrt.Assert(err != nil, "encoding a message with no body is an error")
}
`)
	return g.finish(c, "C05")
}
