// symgo: solver-based checking of free5gc/nas. See /verif/DESIGN.md.
package main

import (
	"encoding/json"
	"flag"
	"fmt"
	"os"
	"path/filepath"
	"regexp"
	"sort"
	"strings"
	"time"

	"golang.org/x/tools/go/ssa"

	"verif/engine/sym"
)

type runCfg struct {
	repo, verif string
	prop, tier  string
	runRe       string
	workers     int
	solver      string
	timeoutMs   int
	maxPaths    int
	wall        time.Duration
	debug       bool
	pathLimit   time.Duration
	noReplay    bool
	seed        int64
}

func main() {
	if len(os.Args) < 2 {
		fmt.Fprintln(os.Stderr, "usage: symgo check|run ...")
		os.Exit(2)
	}
	cmd := os.Args[1]
	fs := flag.NewFlagSet(cmd, flag.ExitOnError)
	var c runCfg
	fs.StringVar(&c.repo, "repo", "/repo", "repository")
	fs.StringVar(&c.verif, "verif", "/verif", "verification directory")
	fs.StringVar(&c.prop, "prop", "", "property id")
	fs.StringVar(&c.tier, "tier", "quick", "quick|thorough")
	fs.StringVar(&c.runRe, "run", "", "regexp selecting harness names")
	fs.IntVar(&c.workers, "j", 16, "workers")
	fs.StringVar(&c.solver, "solver", "z3", "z3|z3-new|cvc5")
	fs.IntVar(&c.timeoutMs, "timeout", 0, "per-query timeout ms (default 20000 quick / 120000 thorough)")
	fs.IntVar(&c.maxPaths, "maxpaths", 0, "path budget per harness")
	fs.DurationVar(&c.wall, "wall", 0, "wall limit per harness")
	fs.BoolVar(&c.debug, "debug", false, "debug output")
	fs.DurationVar(&c.pathLimit, "pathlimit", 0, "time limit per path (default 120s quick / 600s thorough)")
	fs.BoolVar(&c.noReplay, "noreplay", false, "skip native replay")
	fs.Parse(os.Args[2:])
	if t := os.Getenv("VERIF_TIER"); t != "" && !flagSet(fs, "tier") {
		c.tier = t
	}
	if s := os.Getenv("VERIF_SEED"); s != "" {
		fmt.Sscan(s, &c.seed)
	}
	if c.timeoutMs == 0 {
		c.timeoutMs = 20000
		if c.tier == "thorough" {
			c.timeoutMs = 120000
		}
	}
	if c.wall == 0 {
		// per-harness exploration budget; on the unchanged tree no harness comes near it
		c.wall = 300 * time.Second
		if c.tier == "thorough" {
			c.wall = 2400 * time.Second
		}
	}
	if c.pathLimit == 0 {
		c.pathLimit = 120 * time.Second
		if c.tier == "thorough" {
			c.pathLimit = 600 * time.Second
		}
	}
	switch cmd {
	case "check":
		os.Exit(check(&c))
	case "run":
		os.Exit(runOnly(&c))
	default:
		fmt.Fprintln(os.Stderr, "unknown command", cmd)
		os.Exit(2)
	}
}

func flagSet(fs *flag.FlagSet, name string) bool {
	set := false
	fs.Visit(func(f *flag.Flag) {
		if f.Name == name {
			set = true
		}
	})
	return set
}

func harnessRoots(c *runCfg) []string {
	roots := []string{filepath.Join(c.verif, "harness", "common")}
	if c.prop != "" {
		for _, d := range []string{filepath.Join(c.verif, "harness", c.prop), filepath.Join(c.verif, "work", c.prop, "gen")} {
			if st, err := os.Stat(d); err == nil && st.IsDir() {
				roots = append(roots, d)
			}
		}
	}
	return roots
}

// explore loads the code and runs every selected harness.
func explore(c *runCfg) (*loaded, map[string][]byte, []*sym.HarnessResult, error) {
	ov, _, err := buildOverlay(c.repo, harnessRoots(c))
	if err != nil {
		return nil, nil, nil, err
	}
	// tier constant
	tierFile := filepath.Join(c.repo, "zz_verifrt", "zz_verif_tier.go")
	th := "false"
	if c.tier == "thorough" {
		th = "true"
	}
	ov[tierFile] = []byte("package zz_verifrt\n\n// Thorough reports the tier (generated per run).\nfunc Thorough() bool { return " + th + " }\n")
	t0 := time.Now()
	l, err := load(c.repo, ov)
	if err != nil {
		// A harness file that reaches into unexported state may stop type-checking when the tree changes the
		// representation. Such files are set aside (their harnesses are reported INCONCLUSIVE) and the remaining
		// harnesses - in particular those that use only the exported API - still run.
		dropped := 0
		for f, msg := range loadErrFiles {
			base := filepath.Base(f)
			dir := filepath.Base(filepath.Dir(f))
			if _, isOv := ov[f]; isOv && strings.HasPrefix(base, "zz_verif_") && dir != "zz_verifrt" && dir != "zz_verifref" {
				delete(ov, f)
				dropped++
				fmt.Printf("INCONCLUSIVE property=%s harness file %s does not type-check against this tree and was set aside: %s\n", c.prop, base, msg)
			}
		}
		if dropped == 0 {
			return nil, nil, nil, err
		}
		l, err = load(c.repo, ov)
		if err != nil {
			return nil, nil, nil, err
		}
	}
	fmt.Fprintf(os.Stderr, "symgo: loaded and built SSA in %.1fs\n", time.Since(t0).Seconds())
	prefix := "VH_"
	if c.prop != "" {
		prefix = "VH_" + c.prop + "_"
	}
	hs := l.harnesses(prefix)
	if c.runRe != "" {
		re := regexp.MustCompile(c.runRe)
		var f []*ssa.Function
		for _, h := range hs {
			if re.MatchString(h.Name()) {
				f = append(f, h)
			}
		}
		hs = f
	}
	sh := sym.NewShared(l.prog)
	if c.maxPaths == 0 && c.tier == "thorough" {
		c.maxPaths = 600000 // quick keeps the engine default of 50000 paths per harness
	}
	opt := sym.Options{Solver: c.solver, TimeoutMs: c.timeoutMs, MaxPaths: c.maxPaths, WallLimit: c.wall, Debug: c.debug, PathLimit: c.pathLimit}
	var progress func(*sym.HarnessResult)
	if c.debug {
		progress = func(r *sym.HarnessResult) {
			fmt.Fprintf(os.Stderr, "  %s: paths=%d proved=%d violated=%d inconcl=%d cpu=%.1fs\n", r.Name, r.Stats.Paths, r.Stats.Proved, r.Stats.Violated, r.Stats.Inconclusive, r.WallS)
		}
	}
	results := sym.RunAll(sh, hs, opt, c.workers, progress)
	return l, ov, results, nil
}

func runOnly(c *runCfg) int {
	if c.prop != "" {
		os.MkdirAll(filepath.Join(c.verif, "work", c.prop), 0o755)
		if err := generate(c); err != nil {
			fmt.Fprintln(os.Stderr, "symgo: generator failed:", err)
			return 2
		}
	}
	_, _, results, err := explore(c)
	if err != nil {
		fmt.Fprintln(os.Stderr, "symgo:", err)
		return 2
	}
	for _, r := range results {
		fmt.Printf("%s: paths=%d completed=%d proved=%d violated=%d inconclusive=%d merges=%d/%d queries=%d (feas %d assert %d) wall=%.2fs solver=%.2fs\n",
			r.Name, r.Stats.Paths, r.Completed, r.Stats.Proved, r.Stats.Violated, r.Stats.Inconclusive, r.Stats.Merges, r.Stats.MergeFails, r.Queries, r.Stats.FeasQueries, r.Stats.AssertQueries, r.WallS, r.SolverS)
		for _, rep := range r.Reports {
			fmt.Printf("   %s %s [%s] %s %s\n", rep.Status, rep.Kind, rep.Label, rep.Site, rep.Detail)
			if rep.Model != nil && c.debug {
				fmt.Printf("      model: %s\n", modelString(rep.Model))
			}
		}
		for _, e := range r.Errors {
			fmt.Printf("   ERROR %s\n", e)
		}
		for _, e := range r.Imprecise {
			fmt.Printf("   imprecise: %s\n", e)
		}
	}
	if len(results) == 0 {
		fmt.Println("no harness matched")
	}
	return 0
}

func modelString(m map[string]uint64) string {
	keys := make([]string, 0, len(m))
	for k := range m {
		keys = append(keys, k)
	}
	sort.Strings(keys)
	var sb strings.Builder
	for i, k := range keys {
		if i > 0 {
			sb.WriteString(" ")
		}
		if i > 60 {
			sb.WriteString("...")
			break
		}
		fmt.Fprintf(&sb, "%s=%#x", k, m[k])
	}
	return sb.String()
}

func writeJSON(path string, v any) error {
	b, err := json.MarshalIndent(v, "", " ")
	if err != nil {
		return err
	}
	os.MkdirAll(filepath.Dir(path), 0o755)
	return os.WriteFile(path, append(b, '\n'), 0o644)
}
