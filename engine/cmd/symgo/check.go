package main

import (
	"bytes"
	"go/constant"
	"encoding/json"
	"fmt"
	"os"
	"os/exec"
	"path/filepath"
	"regexp"
	"sort"
	"strings"
	"time"

	"golang.org/x/tools/go/ssa"

	"verif/engine/sym"
)

type knownFinding struct {
	Property string `json:"property"`
	Status   string `json:"status"` // known | fixed
	Harness  string `json:"harness"` // regexp on harness name
	Kind     string `json:"kind"`    // assert | panic | hang (optional)
	Label    string `json:"label"`   // regexp on label (optional)
	Site     string `json:"site"`    // regexp on site (optional)
	What     string `json:"what"`
	Commit   string `json:"commit,omitempty"`
}

type knownFile struct {
	Findings []knownFinding `json:"findings"`
}

func loadKnown(path string) []knownFinding {
	b, err := os.ReadFile(path)
	if err != nil {
		return nil
	}
	var kf knownFile
	if err := json.Unmarshal(b, &kf); err != nil {
		fmt.Fprintln(os.Stderr, "symgo: cannot parse known findings:", err)
		return nil
	}
	return kf.Findings
}

func (k *knownFinding) matches(prop string, r *sym.Report) bool {
	if k.Property != prop || k.Status != "known" {
		return false
	}
	m := func(pat, s string) bool {
		if pat == "" {
			return true
		}
		ok, err := regexp.MatchString(pat, s)
		return err == nil && ok
	}
	if k.Kind != "" && k.Kind != r.Kind {
		return false
	}
	return m(k.Harness, r.Harness) && m(k.Label, r.Label) && m(k.Site, r.Site)
}

type replayCase struct {
	Harness string            `json:"harness"`
	Model   map[string]uint64 `json:"model"`
	Kind    string            `json:"kind"`
	Label   string            `json:"label"`
	Site    string            `json:"site"`
	Pkg     string            `json:"pkg"`
	Outcome string            `json:"outcome,omitempty"`
	Reproduced bool           `json:"reproduced"`
}

const replayTestSrc = `package %s

import (
	"encoding/json"
	"fmt"
	"os"
	"testing"
	"time"

	vrt "github.com/free5gc/nas/zz_verifrt"
)

var zzVerifHarnesses = map[string]func(){
%s}

func TestZZVerifReplay(t *testing.T) {
	b, err := os.ReadFile(os.Getenv("VERIF_CASES"))
	if err != nil {
		t.Skip("no cases")
	}
	var cases []struct {
		Harness string
		Model   map[string]uint64
	}
	if err := json.Unmarshal(b, &cases); err != nil {
		t.Fatal(err)
	}
	for i, c := range cases {
		f, ok := zzVerifHarnesses[c.Harness]
		if !ok {
			continue
		}
		done := make(chan string, 1)
		go func() {
			defer func() {
				if r := recover(); r != nil {
					switch e := r.(type) {
					case vrt.AssumeFailed:
						done <- "ASSUME-FAILED"
					case vrt.AssertFailed:
						done <- "ASSERT-FAILED " + e.Label
					default:
						done <- fmt.Sprintf("PANIC %%v", r)
					}
				}
			}()
			vrt.SetModel(c.Model)
			f()
			done <- "OK"
		}()
		select {
		case out := <-done:
			fmt.Printf("REPLAY %%d %%s %%s\n", i, c.Harness, out)
		case <-time.After(5 * time.Second):
			fmt.Printf("REPLAY %%d %%s HANG\n", i, c.Harness)
			return // the goroutine is stuck; remaining cases of this package need another run
		}
	}
}
`

// replay runs the violated harnesses natively with the solver's models.
func replay(c *runCfg, l *loaded, overlay map[string][]byte, cases []*replayCase, harnessPkg map[string]*ssa.Package) error {
	if len(cases) == 0 {
		return nil
	}
	work := filepath.Join(c.verif, "work", c.prop, "replay")
	os.RemoveAll(work)
	os.MkdirAll(work, 0o755)
	// materialise overlay files under work and write overlay.json
	repl := map[string]string{}
	n := 0
	for target, content := range overlay {
		n++
		p := filepath.Join(work, fmt.Sprintf("ov%d_%s", n, filepath.Base(target)))
		if err := os.WriteFile(p, content, 0o644); err != nil {
			return err
		}
		repl[target] = p
	}
	// per package: test driver listing all harness functions of that package
	byPkg := map[*ssa.Package][]*replayCase{}
	for _, rc := range cases {
		p := harnessPkg[rc.Harness]
		byPkg[p] = append(byPkg[p], rc)
	}
	for p := range byPkg {
		var names []string
		for name, m := range p.Members {
			if _, ok := m.(*ssa.Function); ok && strings.HasPrefix(name, "VH_") {
				names = append(names, name)
			}
		}
		sort.Strings(names)
		var sb strings.Builder
		for _, nme := range names {
			fmt.Fprintf(&sb, "\t%q: %s,\n", nme, nme)
		}
		src := fmt.Sprintf(replayTestSrc, p.Pkg.Name(), sb.String())
		rel := strings.TrimPrefix(strings.TrimPrefix(p.Pkg.Path(), modPath), "/")
		target := filepath.Join(c.repo, rel, "zz_verif_replay_test.go")
		n++
		fp := filepath.Join(work, fmt.Sprintf("ov%d_replay_test.go", n))
		os.WriteFile(fp, []byte(src), 0o644)
		repl[target] = fp
	}
	ovPath := filepath.Join(work, "overlay.json")
	if err := writeJSON(ovPath, map[string]any{"Replace": repl}); err != nil {
		return err
	}
	for p, pcs := range byPkg {
		rel := strings.TrimPrefix(strings.TrimPrefix(p.Pkg.Path(), modPath), "/")
		pending := pcs
		for round := 0; len(pending) > 0 && round < 50; round++ {
			casesPath := filepath.Join(work, "cases.json")
			type cj struct {
				Harness string
				Model   map[string]uint64
			}
			var js []cj
			for _, rc := range pending {
				js = append(js, cj{rc.Harness, rc.Model})
			}
			writeJSON(casesPath, js)
			cmd := exec.Command("go", "test", "-v", "-vet=off", "-count=1", "-run", "^TestZZVerifReplay$", "-overlay", ovPath, "-timeout", "600s", "./"+rel)
			cmd.Dir = c.repo
			cmd.Env = append(os.Environ(), "GOFLAGS=-mod=mod", "GOPROXY=off", "GOSUMDB=off", "GOTOOLCHAIN=local", "VERIF_CASES="+casesPath)
			var out bytes.Buffer
			cmd.Stdout = &out
			cmd.Stderr = &out
			cmd.Run()
			got := map[int]string{}
			for _, line := range strings.Split(out.String(), "\n") {
				var idx int
				var h string
				if strings.HasPrefix(line, "REPLAY ") {
					rest := strings.TrimPrefix(line, "REPLAY ")
					parts := strings.SplitN(rest, " ", 3)
					if len(parts) == 3 {
						fmt.Sscan(parts[0], &idx)
						h = parts[1]
						_ = h
						got[idx] = parts[2]
					}
				}
			}
			if len(got) == 0 {
				for _, rc := range pending {
					rc.Outcome = "REPLAY-BUILD-FAILED: " + firstLines(out.String(), 6)
				}
				break
			}
			var next []*replayCase
			stopped := false
			for i, rc := range pending {
				o, ok := got[i]
				if !ok {
					next = append(next, rc)
					continue
				}
				rc.Outcome = o
				if o == "HANG" {
					stopped = true
				}
			}
			if !stopped && len(next) == len(pending) {
				break
			}
			pending = next
		}
	}
	for _, rc := range cases {
		rc.Reproduced = reproduced(rc)
	}
	return nil
}

func firstLines(s string, n int) string {
	ls := strings.Split(strings.TrimSpace(s), "\n")
	if len(ls) > n {
		ls = ls[:n]
	}
	return strings.Join(ls, " / ")
}

func reproduced(rc *replayCase) bool {
	o := rc.Outcome
	switch rc.Kind {
	case "panic":
		return strings.HasPrefix(o, "PANIC") || (strings.HasPrefix(o, "ASSERT-FAILED") && strings.Contains(o, "panic"))
	case "assert":
		return o == "ASSERT-FAILED "+rc.Label || (strings.HasPrefix(o, "ASSERT-FAILED") && strings.HasPrefix(rc.Label, strings.TrimPrefix(o, "ASSERT-FAILED ")))
	case "unwind", "hang":
		return o == "HANG"
	case "witness":
		return o == "OK"
	case "footprint":
		// A store to memory outside the call's own footprint is observed by the executor on a feasible path; a
		// sequential native run cannot see it (the value may be restored afterwards, or equal). What the native
		// replay confirms is that the model drives the real build down this path to the end of the harness.
		return o == "OK"
	}
	return false
}

type evidence struct {
	PropertyID string         `json:"property_id"`
	Tier       string         `json:"tier"`
	Seed       int64          `json:"seed"`
	Level      string         `json:"level"`
	Coverage   map[string]any `json:"coverage"`
	Assumptions []string      `json:"assumptions"`
	WallS      float64        `json:"wall_s"`
	Violations int            `json:"violations"`
}

func check(c *runCfg) int {
	t0 := time.Now()
	if c.prop == "" {
		fmt.Fprintln(os.Stderr, "symgo check: -prop required")
		return 2
	}
	os.MkdirAll(filepath.Join(c.verif, "work", c.prop), 0o755)
	if err := generate(c); err != nil {
		fmt.Fprintln(os.Stderr, "symgo: generator failed:", err)
		return 2
	}
	l, ov, results, err := explore(c)
	if err != nil {
		fmt.Fprintln(os.Stderr, "symgo:", err)
		fmt.Printf("INCONCLUSIVE property=%s could not load /repo: %v\n", c.prop, err)
		writeFailEvidence(c, t0, err.Error())
		return 0
	}
	harnessPkg := map[string]*ssa.Package{}
	for _, h := range l.harnesses("VH_" + c.prop + "_") {
		harnessPkg[h.Name()] = h.Pkg
	}
	known := loadKnown(filepath.Join(c.verif, "known_findings.json"))
	// vacuity: every assertion label written as a constant in a harness body must be reached on some path
	required := map[string][]string{}
	for _, h := range l.harnesses("VH_" + c.prop + "_") {
		required[h.Name()] = constLabels(h)
	}

	var cases []*replayCase
	caseOf := map[*sym.Report]*replayCase{}
	var st sym.Stats
	var queries, fallbackQ int
	var solverS float64
	funcs := map[string]bool{}
	var samples []any
	var inconcl, vacuous, internal []string
	imprecise := map[string]bool{}
	completedHarnesses := 0
	for _, r := range results {
		st.Paths += r.Stats.Paths
		st.Steps += r.Stats.Steps
		st.FeasQueries += r.Stats.FeasQueries
		st.AssertQueries += r.Stats.AssertQueries
		st.Proved += r.Stats.Proved
		st.Violated += r.Stats.Violated
		st.Inconclusive += r.Stats.Inconclusive
		st.Merges += r.Stats.Merges
		queries += r.Queries
		solverS += r.SolverS
		fallbackQ += r.Fallback
		for _, f := range r.Funcs {
			funcs[f] = true
		}
		for _, e := range r.Errors {
			internal = append(internal, r.Name+": "+firstLines(e, 3))
		}
		for _, im := range r.Imprecise {
			imprecise[im] = true
		}
		if r.Exhausted {
			for _, lab := range required[r.Name] {
				if !r.Reached[lab] {
					vacuous = append(vacuous, r.Name+" (assertion never reached: "+lab+")")
				}
			}
		}
		if r.Completed == 0 && len(r.Errors) == 0 {
			// no path reached the end of the harness: vacuous unless every path ended in a reported violation
			hasViol := false
			for _, rep := range r.Reports {
				if rep.Status == "violated" || rep.Status == "inconclusive" {
					hasViol = true
				}
			}
			if !hasViol {
				vacuous = append(vacuous, r.Name)
			}
		} else {
			completedHarnesses++
		}
		for i := range r.Reports {
			rep := &r.Reports[i]
			switch rep.Status {
			case "violated":
				rc := &replayCase{Harness: rep.Harness, Model: rep.Model, Kind: rep.Kind, Label: rep.Label, Site: rep.Site}
				if p := harnessPkg[rep.Harness]; p != nil {
					rc.Pkg = p.Pkg.Path()
				}
				cases = append(cases, rc)
				caseOf[rep] = rc
			case "inconclusive":
				inconcl = append(inconcl, fmt.Sprintf("%s: %s %s %s %s", r.Name, rep.Kind, rep.Label, rep.Site, rep.Detail))
			}
		}
		if len(samples) < 6 && (r.SampleModel != nil || len(r.Reports) > 0) {
			s := map[string]any{"harness": r.Name, "paths": r.Stats.Paths, "proved": r.Stats.Proved, "queries": r.Queries}
			if r.SampleModel != nil {
				s["witness_model_of_one_completed_path"] = trimModel(r.SampleModel, 24)
			}
			samples = append(samples, s)
		}
	}
	// translator validation: one witness model per harness (a completed path) is replayed natively; the native run
	// must also complete without a failed assumption or assertion.
	var witnesses []*replayCase
	for _, r := range results {
		if r.SampleModel != nil && len(witnesses) < 60 && harnessPkg[r.Name] != nil {
			w := &replayCase{Harness: r.Name, Model: r.SampleModel, Kind: "witness", Label: "witness", Pkg: harnessPkg[r.Name].Pkg.Path()}
			witnesses = append(witnesses, w)
		}
	}
	if !c.noReplay {
		cases = append(cases, witnesses...)
	}
	if !c.noReplay {
		if err := replay(c, l, ov, cases, harnessPkg); err != nil {
			fmt.Fprintln(os.Stderr, "symgo: replay failed:", err)
		}
	}
	// C19: whole-library scan for writable package-level state (solver-free part of the check)
	var scanInfo map[string]any
	var scanViol []globalFinding
	if c.prop == "C19" {
		fnds, globals, nf, conc := scanGlobalState(l)
		scanViol = fnds
		scanInfo = map[string]any{"functions_scanned": nf, "package_level_variables_and_plain_reads": globals, "non_read_uses_outside_init": fnds, "go_send_select_instructions": conc}
	}
	// verdicts
	exit := 0
	nviol, nknown, nspur := 0, 0, 0
	replayDir := filepath.Join(c.verif, "replays", c.prop)
	os.MkdirAll(replayDir, 0o755)
	var cex []any
	knownPrinted := map[string]bool{}
	for _, r := range results {
		for i := range r.Reports {
			rep := &r.Reports[i]
			rc := caseOf[rep]
			if rc == nil {
				continue
			}
			if !rc.Reproduced && !c.noReplay {
				nspur++
				fmt.Printf("SPURIOUS property=%s harness=%s %s [%s] %s native outcome: %s\n", c.prop, rep.Harness, rep.Kind, rep.Label, rep.Site, rc.Outcome)
				inconcl = append(inconcl, fmt.Sprintf("%s: solver model not reproduced natively (%s) for %s [%s]", rep.Harness, rc.Outcome, rep.Kind, rep.Label))
				continue
			}
			matched := false
			for k := range known {
				if known[k].matches(c.prop, rep) {
					matched = true
					key := known[k].What
					if !knownPrinted[key] {
						knownPrinted[key] = true
						fmt.Printf("KNOWN-FINDING: property=%s %s\n", c.prop, known[k].What)
					}
					nknown++
					break
				}
			}
			if matched {
				continue
			}
			nviol++
			path := filepath.Join(replayDir, sanitizeName(rep.Harness+"_"+rep.Kind+"_"+rep.Label)+".json")
			writeJSON(path, rc)
			fmt.Printf("VIOLATION property=%s replay=%s\n", c.prop, path)
			fmt.Printf("  harness=%s kind=%s label=%q site=%s native=%q\n  model: %s\n", rep.Harness, rep.Kind, rep.Label, rep.Site, rc.Outcome, modelString(rep.Model))
			if len(cex) < 8 {
				cex = append(cex, map[string]any{"harness": rep.Harness, "kind": rep.Kind, "label": rep.Label, "site": rep.Site, "model": trimModel(rep.Model, 40), "native_outcome": rc.Outcome})
			}
			exit = 1
		}
	}
	nwit := 0
	for _, w := range witnesses {
		if c.noReplay {
			break
		}
		if w.Reproduced {
			nwit++
		} else if !hasKnownViolation(results, w.Harness) {
			inconcl = append(inconcl, fmt.Sprintf("%s: witness model of a completed symbolic path does not complete natively (%s): engine and native execution diverge", w.Harness, w.Outcome))
		}
	}
	for i, f := range scanViol {
		path := filepath.Join(replayDir, fmt.Sprintf("global_state_%d.json", i))
		writeJSON(path, f)
		fmt.Printf("VIOLATION property=%s replay=%s\n  %s in %s: %s (%s)\n", c.prop, path, f.What, f.Func, f.Global, f.Pos)
		nviol++
		exit = 1
	}
	for _, s := range inconcl {
		fmt.Printf("INCONCLUSIVE property=%s %s\n", c.prop, s)
	}
	for _, s := range vacuous {
		fmt.Printf("INCONCLUSIVE property=%s harness %s is vacuous: no path reaches its end\n", c.prop, s)
	}
	seenInt := map[string]int{}
	for _, s := range internal {
		seenInt[s]++
		if seenInt[s] == 1 {
			fmt.Printf("INCONCLUSIVE property=%s engine error: %s\n", c.prop, s)
		}
	}
	if len(results) == 0 {
		fmt.Printf("INCONCLUSIVE property=%s no harness found\n", c.prop)
	}
	// evidence
	var fl []string
	for f := range funcs {
		if strings.Contains(f, "free5gc/nas") && !strings.Contains(f, "VH_") && !strings.Contains(f, "zz_verif") {
			fl = append(fl, strings.ReplaceAll(f, "github.com/free5gc/nas/", ""))
		}
	}
	sort.Strings(fl)
	var imp []string
	for k := range imprecise {
		imp = append(imp, k)
	}
	sort.Strings(imp)
	var hn []string
	for _, r := range results {
		hn = append(hn, r.Name)
	}
	nontrivial := int(st.AssertQueries)
	meta := loadMeta(c)
	cov := map[string]any{
		"states":                        maxI(int(st.Paths), 1),
		"transitions":                   maxI(int(st.Steps), 1),
		"traces_validated_against_impl": len(cases),
		"witness_paths_replayed_natively_ok": nwit,
		"samples":                       samplesOrDefault(samples, hn),
		"evaluations":                   int(st.Proved + st.Violated + st.Inconclusive),
		"distinct_nontrivial":           nontrivial,
		"rule":                          "one evaluation = one obligation (assertion, implicit run-time check or panic site) on one feasible symbolic path of one harness; non-trivial = the obligation did not fold to a constant and was sent to the SMT solver as a query over symbolic inputs",
		"harnesses":                     len(results),
		"harness_names":                 hn,
		"functions_encoded":             fl,
		"functions_encoded_count":       len(fl),
		"queries":                       map[string]any{"total": queries, "feasibility": st.FeasQueries, "assertion": st.AssertQueries, "proved": st.Proved, "violated_by_solver": st.Violated, "inconclusive": st.Inconclusive, "merged_branches": st.Merges, "decided_by_fallback_solver": fallbackQ},
		"solver":                        map[string]any{"name": c.solver, "version": solverVersion(c.solver), "time_s": round2(solverS), "per_query_timeout_ms": c.timeoutMs},
		"violations_reproduced":         nviol + nknown,
		"known_findings_matched":        nknown,
		"spurious_models":               nspur,
		"counterexamples":               cex,
		"inconclusive":                  trimList(inconcl, 40),
		"vacuous_harnesses":             vacuous,
		"engine_errors":                 trimList(internal, 20),
		"imprecision_notes":             imp,
		"bounds":                        meta.Bounds,
		"outside_claim":                 meta.Outside,
		"exhaustive":                    false,
		"global_state_scan":             scanInfo,
		"explanation":                   "paths = feasible symbolic paths explored (state merging folds many concrete paths into one); transitions = SSA instructions executed symbolically; traces_validated_against_impl = solver models replayed natively against the real build with go test -overlay",
	}
	meta.Assumptions = append(append([]string{}, meta.Assumptions...), "solver verdicts: z3 4.8.12; a query it leaves undecided is handed once to cvc5 1.0 and then z3 5.1.0 (this run: "+fmt.Sprint(fallbackQ)+" such queries decided that way); any solver error line makes the query inconclusive")
	ev := evidence{PropertyID: c.prop, Tier: c.tier, Seed: c.seed, Level: meta.Level, Coverage: cov, Assumptions: meta.Assumptions, WallS: round2(time.Since(t0).Seconds()), Violations: nviol}
	if ev.Level == "" {
		ev.Level = "model_checking"
	}
	if ev.Assumptions == nil {
		ev.Assumptions = []string{"go/ssa lowering faithful", "symgo encoding of Go semantics and intrinsics", "z3 sound"}
	}
	if err := writeJSON(filepath.Join(c.evidenceDir(), c.prop+".json"), ev); err != nil {
		fmt.Fprintln(os.Stderr, "symgo: cannot write evidence:", err)
	}
	fmt.Printf("SUMMARY property=%s tier=%s harnesses=%d paths=%d obligations=%d proved=%d violations=%d known=%d spurious=%d inconclusive=%d queries=%d solver_s=%.1f wall_s=%.1f\n",
		c.prop, c.tier, len(results), st.Paths, st.Proved+st.Violated+st.Inconclusive, st.Proved, nviol, nknown, nspur, len(inconcl)+len(vacuous)+len(internal), queries, solverS, time.Since(t0).Seconds())
	return exit
}

func writeFailEvidence(c *runCfg, t0 time.Time, msg string) {
	ev := evidence{PropertyID: c.prop, Tier: c.tier, Seed: c.seed, Level: "model_checking",
		Coverage: map[string]any{"evaluations": 0, "distinct_nontrivial": 0, "rule": "nothing explored: " + msg, "samples": []any{msg}},
		WallS: round2(time.Since(t0).Seconds())}
	writeJSON(filepath.Join(c.evidenceDir(), c.prop+".json"), ev)
}

func samplesOrDefault(s []any, hn []string) []any {
	if len(s) > 0 {
		return s
	}
	if len(hn) > 0 {
		return []any{map[string]any{"harness": hn[0]}}
	}
	return []any{"none"}
}

func trimModel(m map[string]uint64, n int) map[string]uint64 {
	if len(m) <= n {
		return m
	}
	keys := make([]string, 0, len(m))
	for k := range m {
		keys = append(keys, k)
	}
	sort.Strings(keys)
	out := map[string]uint64{}
	for _, k := range keys[:n] {
		out[k] = m[k]
	}
	return out
}

func trimList(l []string, n int) []string {
	if l == nil {
		return []string{}
	}
	if len(l) > n {
		return append(l[:n:n], fmt.Sprintf("... and %d more", len(l)-n))
	}
	return l
}

func maxI(a, b int) int {
	if a > b {
		return a
	}
	return b
}

func round2(f float64) float64 { return float64(int(f*100+0.5)) / 100 }

func sanitizeName(s string) string {
	b := []byte(s)
	for i, c := range b {
		if !(c >= 'a' && c <= 'z' || c >= 'A' && c <= 'Z' || c >= '0' && c <= '9' || c == '_' || c == '-') {
			b[i] = '_'
		}
	}
	if len(b) > 120 {
		b = b[:120]
	}
	return string(b)
}

var solverVersions = map[string]string{}

func solverVersion(kind string) string {
	if v, ok := solverVersions[kind]; ok {
		return v
	}
	bin := kind
	out, err := exec.Command(bin, "--version").Output()
	v := strings.TrimSpace(firstLines(string(out), 1))
	if err != nil {
		v = "unknown"
	}
	solverVersions[kind] = v
	return v
}

// propMeta: static description of a property's check (bounds, assumptions) kept beside the harnesses.
type propMeta struct {
	Level       string   `json:"level"`
	Bounds      any      `json:"bounds"`
	Outside     []string `json:"outside_claim"`
	Assumptions []string `json:"assumptions"`
}

func loadMeta(c *runCfg) propMeta {
	var m propMeta
	b, err := os.ReadFile(filepath.Join(c.verif, "harness", c.prop, "meta.json"))
	if err == nil {
		var tiers map[string]propMeta
		if json.Unmarshal(b, &tiers) == nil {
			if t, ok := tiers[c.tier]; ok {
				return t
			}
			if t, ok := tiers["quick"]; ok {
				return t
			}
		}
	}
	return m
}

// constLabels lists the constant label strings of vrt.Assert / Equal / Fail / Reach calls in fn and its closures.
func constLabels(fn *ssa.Function) []string {
	seen := map[string]bool{}
	var out []string
	var visit func(f *ssa.Function)
	visit = func(f *ssa.Function) {
		for _, b := range f.Blocks {
			for _, ins := range b.Instrs {
				call, ok := ins.(*ssa.Call)
				if !ok {
					continue
				}
				callee := call.Call.StaticCallee()
				if callee == nil || callee.Pkg == nil || !strings.HasSuffix(callee.Pkg.Pkg.Path(), "zz_verifrt") {
					continue
				}
				switch callee.Name() {
				case "Assert", "Equal", "Fail", "Reach":
					args := call.Call.Args
					if len(args) == 0 {
						continue
					}
					if k, ok := args[len(args)-1].(*ssa.Const); ok && k.Value != nil {
						s := constant.StringVal(k.Value)
						if !seen[s] {
							seen[s] = true
							out = append(out, s)
						}
					}
				}
			}
		}
		for _, an := range f.AnonFuncs {
			visit(an)
		}
	}
	visit(fn)
	return out
}

// hasKnownViolation: a harness with a reported violation may legitimately fail natively on its witness too.
func hasKnownViolation(results []*sym.HarnessResult, name string) bool {
	for _, r := range results {
		if r.Name != name {
			continue
		}
		for _, rep := range r.Reports {
			if rep.Status == "violated" {
				return true
			}
		}
	}
	return false
}

// evidenceDir: /verif/evidence, unless VERIF_EVIDENCE_DIR redirects it (used by tools/try_seeded.sh so that runs
// against a deliberately changed tree never overwrite the evidence of the real tree).
func (c *runCfg) evidenceDir() string {
	if d := os.Getenv("VERIF_EVIDENCE_DIR"); d != "" {
		os.MkdirAll(d, 0o755)
		return d
	}
	return filepath.Join(c.verif, "evidence")
}
