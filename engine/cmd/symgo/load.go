package main

import (
	"fmt"
	"go/types"
	"os"
	"path/filepath"
	"sort"
	"strings"

	"golang.org/x/tools/go/packages"
	"golang.org/x/tools/go/ssa"
	"golang.org/x/tools/go/ssa/ssautil"
)

const modPath = "github.com/free5gc/nas"

// buildOverlay maps every harness file under the given roots into the repository tree.
// <root>/<rel>/<file>.go -> <repo>/<rel>/zz_verif_<file>.go  (zz_verifrt keeps its own directory).
func buildOverlay(repo string, roots []string) (map[string][]byte, map[string]string, error) {
	ov := map[string][]byte{}
	src := map[string]string{}
	for _, root := range roots {
		err := filepath.Walk(root, func(p string, info os.FileInfo, err error) error {
			if err != nil {
				return err
			}
			if info.IsDir() || !strings.HasSuffix(p, ".go") {
				return nil
			}
			rel, _ := filepath.Rel(root, p)
			dir, file := filepath.Split(rel)
			target := filepath.Join(repo, dir, "zz_verif_"+file)
			b, err := os.ReadFile(p)
			if err != nil {
				return err
			}
			ov[target] = b
			src[target] = p
			return nil
		})
		if err != nil {
			return nil, nil, err
		}
	}
	return ov, src, nil
}

// loadErrFiles: file -> first error message of the last failed load (used to set aside harness files that no longer
// type-check against a changed tree, e.g. because they touch an unexported field whose type changed)
var loadErrFiles map[string]string

type loaded struct {
	prog *ssa.Program
	pkgs []*ssa.Package
	all  []*packages.Package
}

func load(repo string, overlay map[string][]byte) (*loaded, error) {
	extra := map[string]bool{}
	for p := range overlay {
		d, _ := filepath.Rel(repo, filepath.Dir(p))
		extra["./"+d] = true
	}
	patterns := []string{"./..."}
	for d := range extra {
		patterns = append(patterns, d)
	}
	sort.Strings(patterns)
	cfg := &packages.Config{
		Mode:    packages.LoadAllSyntax,
		Dir:     repo,
		Overlay: overlay,
		Env:     append(os.Environ(), "GOFLAGS=-mod=mod", "GOPROXY=off", "GOSUMDB=off", "GOTOOLCHAIN=local"),
		Tests:   false,
	}
	pkgs, err := packages.Load(cfg, patterns...)
	if err != nil {
		return nil, err
	}
	nerr := 0
	loadErrFiles = map[string]string{}
	packages.Visit(pkgs, nil, func(p *packages.Package) {
		for _, e := range p.Errors {
			if nerr < 30 {
				fmt.Fprintf(os.Stderr, "load error: %s: %v\n", p.PkgPath, e)
			}
			nerr++
			if i := strings.Index(e.Pos, ":"); i > 0 {
				if _, ok := loadErrFiles[e.Pos[:i]]; !ok {
					loadErrFiles[e.Pos[:i]] = e.Msg
				}
			}
		}
	})
	if nerr > 0 {
		return nil, fmt.Errorf("%d package load errors (does /repo build?)", nerr)
	}
	prog, spkgs := ssautil.AllPackages(pkgs, ssa.InstantiateGenerics)
	prog.Build()
	l := &loaded{prog: prog, all: pkgs}
	seen := map[*ssa.Package]bool{}
	for _, sp := range spkgs {
		if sp != nil && !seen[sp] {
			seen[sp] = true
			l.pkgs = append(l.pkgs, sp)
		}
	}
	return l, nil
}

func (l *loaded) harnesses(prefix string) []*ssa.Function {
	var out []*ssa.Function
	for _, p := range l.pkgs {
		if !strings.HasPrefix(p.Pkg.Path(), modPath) {
			continue
		}
		for name, m := range p.Members {
			if fn, ok := m.(*ssa.Function); ok && strings.HasPrefix(name, prefix) {
				out = append(out, fn)
			}
		}
	}
	sort.Slice(out, func(i, j int) bool { return out[i].Name() < out[j].Name() })
	return out
}

func typesPointer(m *ssa.Type) types.Type { return types.NewPointer(m.Type()) }
