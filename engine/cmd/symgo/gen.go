package main

// generate runs the per-property harness generators (they read /repo's current source).
func generate(c *runCfg) error {
	if g, ok := generators[c.prop]; ok {
		return g(c)
	}
	return nil
}

var generators = map[string]func(*runCfg) error{}


