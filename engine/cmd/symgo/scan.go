package main

import (
	"fmt"
	"sort"
	"strings"

	"golang.org/x/tools/go/ssa"
)

// globalFinding: a use of package-level state outside package initialisation that is not a plain read.
type globalFinding struct {
	Func   string `json:"func"`
	Global string `json:"global"`
	What   string `json:"what"`
	Pos    string `json:"pos"`
}

// scanGlobalState walks every function of the library (not only those a harness enters) and reports every
// instruction through which package-level state could be modified or escape outside an init function.
// It also returns the list of package-level variables and how many plain reads each has.
func scanGlobalState(l *loaded) (findings []globalFinding, globals map[string]int, nfuncs int, concurrency []string) {
	globals = map[string]int{}
	isLib := func(p *ssa.Package) bool {
		if p == nil {
			return false
		}
		path := p.Pkg.Path()
		return strings.HasPrefix(path, modPath) && !strings.Contains(path, "zz_verif") && !strings.Contains(path, "/internal/")
	}
	var fns []*ssa.Function
	seen := map[*ssa.Function]bool{}
	var add func(f *ssa.Function)
	add = func(f *ssa.Function) {
		if f == nil || seen[f] {
			return
		}
		seen[f] = true
		fns = append(fns, f)
		for _, a := range f.AnonFuncs {
			add(a)
		}
	}
	for _, p := range l.pkgs {
		if !isLib(p) {
			continue
		}
		for _, m := range p.Members {
			switch m := m.(type) {
			case *ssa.Function:
				if !strings.HasPrefix(m.Name(), "VH_") && !strings.HasPrefix(m.Name(), "zz") {
					add(m)
				}
			case *ssa.Type:
				for _, recv := range []interface{ NumMethods() int }{} {
					_ = recv
				}
				mset := l.prog.MethodSets.MethodSet(m.Type())
				for i := 0; i < mset.Len(); i++ {
					add(l.prog.MethodValue(mset.At(i)))
				}
				pm := l.prog.MethodSets.MethodSet(typesPointer(m))
				for i := 0; i < pm.Len(); i++ {
					add(l.prog.MethodValue(pm.At(i)))
				}
			case *ssa.Global:
				globals[m.String()] = 0
			}
		}
	}
	for _, f := range fns {
		if f.Pkg == nil || !isLib(f.Pkg) || f.Synthetic != "" && !strings.HasPrefix(f.Name(), "init") {
			continue
		}
		nfuncs++
		isInit := f.Name() == "init" || strings.HasPrefix(f.Name(), "init#")
		for _, b := range f.Blocks {
			for _, ins := range b.Instrs {
				switch ins.(type) {
				case *ssa.Go, *ssa.Send, *ssa.Select:
					concurrency = append(concurrency, fmt.Sprintf("%s: %T", f, ins))
				}
				if isInit {
					continue
				}
				for _, op := range ins.Operands(nil) {
					g, ok := (*op).(*ssa.Global)
					if !ok || g.Pkg == nil || !isLib(g.Pkg) {
						continue
					}
					if w := classifyGlobalUse(ins, g, 0); w != "" {
						findings = append(findings, globalFinding{Func: f.String(), Global: g.String(), What: w, Pos: l.prog.Fset.Position(ins.Pos()).String()})
					} else {
						globals[g.String()]++
					}
				}
			}
		}
	}
	sort.Slice(findings, func(i, j int) bool { return findings[i].Pos < findings[j].Pos })
	return
}

// classifyGlobalUse returns "" when the instruction only reads through the global (directly or after
// field/index address computation), otherwise a description of the offending use.
func classifyGlobalUse(ins ssa.Instruction, addr ssa.Value, depth int) string {
	if depth > 6 {
		return "address of package-level state flows too far to follow"
	}
	switch x := ins.(type) {
	case *ssa.UnOp:
		return "" // load
	case *ssa.Store:
		if x.Addr == addr {
			return "store to package-level state"
		}
		return "address of package-level state stored into memory"
	case *ssa.FieldAddr, *ssa.IndexAddr:
		v := ins.(ssa.Value)
		if refs := v.Referrers(); refs != nil {
			for _, r := range *refs {
				if w := classifyGlobalUse(r, v, depth+1); w != "" {
					return w
				}
			}
		}
		return ""
	case *ssa.MapUpdate:
		return "map update on package-level state"
	case *ssa.DebugRef:
		return ""
	case *ssa.Call:
		return "address of package-level state passed to a call"
	case *ssa.Slice:
		return "package-level array sliced (writable alias)"
	case *ssa.MakeInterface:
		return "address of package-level state converted to an interface"
	}
	return fmt.Sprintf("address of package-level state used by %T", ins)
}
