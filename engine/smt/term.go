// Package smt: hash-consed bit-vector/boolean terms with local simplification,
// SMT-LIB2 printing and a long-lived solver process.
package smt

import (
	"fmt"
	"sort"
	"strings"
)

type Op uint8

const (
	OpConst Op = iota // BV or Bool constant
	OpVar             // declared constant
	OpAdd
	OpSub
	OpMul
	OpUDiv
	OpURem
	OpSDiv
	OpSRem
	OpAnd
	OpOr
	OpXor
	OpNot // bvnot
	OpNeg
	OpShl
	OpLShr
	OpAShr
	OpConcat
	OpExtract // hi, lo
	OpZExt    // to width W
	OpSExt
	OpIte
	OpEq
	OpUlt
	OpUle
	OpSlt
	OpSle
	OpBAnd // boolean and
	OpBOr
	OpBNot
	OpApp    // uninterpreted function application; Name = function symbol
	OpSelect // array select (array var, index)
	OpStore  // array store
	OpConstArray // constant array; Args[0] = default element
)

var opNames = [...]string{"const", "var", "bvadd", "bvsub", "bvmul", "bvudiv", "bvurem", "bvsdiv", "bvsrem",
	"bvand", "bvor", "bvxor", "bvnot", "bvneg", "bvshl", "bvlshr", "bvashr", "concat", "extract", "zero_extend", "sign_extend",
	"ite", "=", "bvult", "bvule", "bvslt", "bvsle", "and", "or", "not", "app", "select", "store", "constarray"}

// Sort: W>0 bit-vector of width W; W==0 Bool; array if AI>0 (index width AI, element width AE; AE==0 => Bool elements).
type Sort struct {
	W      int
	AI, AE int
}

func (s Sort) IsBool() bool  { return s.W == 0 && s.AI == 0 }
func (s Sort) IsArray() bool { return s.AI > 0 }
func (s Sort) String() string {
	if s.AI > 0 {
		e := "Bool"
		if s.AE > 0 {
			e = fmt.Sprintf("(_ BitVec %d)", s.AE)
		}
		return fmt.Sprintf("(Array (_ BitVec %d) %s)", s.AI, e)
	}
	if s.W == 0 {
		return "Bool"
	}
	return fmt.Sprintf("(_ BitVec %d)", s.W)
}

var BoolSort = Sort{}

func BV(w int) Sort { return Sort{W: w} }

type Term struct {
	ID   int
	Op   Op
	S    Sort
	Args []*Term
	Val  uint64 // constants (bool: 0/1)
	Name string // vars, apps
	Hi   int
	Lo   int
}

func (t *Term) IsConst() bool { return t.Op == OpConst }
func (t *Term) W() int        { return t.S.W }

// Ctx owns a term table. Not safe for concurrent use.
type Ctx struct {
	tab   map[string]*Term
	terms []*Term
	Vars  map[string]*Term
	Funs  map[string]FunDecl
	FunOrder []string
	VarOrder []string
	True  *Term
	False *Term
	ivals map[int]ival
	rangeCons map[int]*Term
	exMemo map[[3]int]*Term
	kz     map[int]uint64
}

type FunDecl struct {
	Name string
	Args []Sort
	Ret  Sort
}

func NewCtx() *Ctx {
	c := &Ctx{tab: map[string]*Term{}, Vars: map[string]*Term{}, Funs: map[string]FunDecl{}}
	c.True = c.mk(&Term{Op: OpConst, S: BoolSort, Val: 1})
	c.False = c.mk(&Term{Op: OpConst, S: BoolSort, Val: 0})
	return c
}

func (c *Ctx) NumTerms() int { return len(c.terms) }
func (c *Ctx) TermByID(id int) *Term { return c.terms[id] }

func (c *Ctx) mk(t *Term) *Term {
	var sb strings.Builder
	fmt.Fprintf(&sb, "%d|%d,%d,%d|%d|%s|%d,%d", t.Op, t.S.W, t.S.AI, t.S.AE, t.Val, t.Name, t.Hi, t.Lo)
	for _, a := range t.Args {
		fmt.Fprintf(&sb, "|%d", a.ID)
	}
	k := sb.String()
	if o, ok := c.tab[k]; ok {
		return o
	}
	t.ID = len(c.terms)
	c.terms = append(c.terms, t)
	c.tab[k] = t
	return t
}

func mask(w int) uint64 {
	if w >= 64 {
		return ^uint64(0)
	}
	return (uint64(1) << uint(w)) - 1
}

func sext64(v uint64, w int) int64 {
	if w >= 64 {
		return int64(v)
	}
	sh := uint(64 - w)
	return int64(v<<sh) >> sh
}

func (c *Ctx) Const(v uint64, w int) *Term {
	if w <= 0 || w > 64 {
		panic(fmt.Sprintf("smt: bad const width %d", w))
	}
	return c.mk(&Term{Op: OpConst, S: BV(w), Val: v & mask(w)})
}

func (c *Ctx) Bool(b bool) *Term {
	if b {
		return c.True
	}
	return c.False
}

func (c *Ctx) Var(name string, s Sort) *Term {
	if t, ok := c.Vars[name]; ok {
		if t.S != s {
			panic(fmt.Sprintf("smt: var %s redeclared with different sort", name))
		}
		return t
	}
	t := c.mk(&Term{Op: OpVar, S: s, Name: name})
	c.Vars[name] = t
	c.VarOrder = append(c.VarOrder, name)
	return t
}

func (c *Ctx) DeclareFun(name string, args []Sort, ret Sort) {
	if _, ok := c.Funs[name]; ok {
		return
	}
	c.Funs[name] = FunDecl{name, args, ret}
	c.FunOrder = append(c.FunOrder, name)
}

func (c *Ctx) App(name string, ret Sort, args ...*Term) *Term {
	if _, ok := c.Funs[name]; !ok {
		ss := make([]Sort, len(args))
		for i, a := range args {
			ss[i] = a.S
		}
		c.DeclareFun(name, ss, ret)
	}
	return c.mk(&Term{Op: OpApp, S: ret, Name: name, Args: args})
}

func (c *Ctx) bin(op Op, a, b *Term) *Term {
	if a.S != b.S {
		panic(fmt.Sprintf("smt: sort mismatch in %s: %v vs %v", opNames[op], a.S, b.S))
	}
	return c.mk(&Term{Op: op, S: a.S, Args: []*Term{a, b}})
}

func (c *Ctx) Add(a, b *Term) *Term {
	w := a.W()
	if a.IsConst() && b.IsConst() {
		return c.Const(a.Val+b.Val, w)
	}
	if r := c.shlConcat(a, b); r != nil {
		return r
	}
	if a.IsConst() {
		a, b = b, a
	}
	if b.IsConst() && b.Val == 0 {
		return a
	}
	// (x + c1) + c2
	if b.IsConst() && a.Op == OpAdd && a.Args[1].IsConst() {
		return c.Add(a.Args[0], c.Const(a.Args[1].Val+b.Val, w))
	}
	// (x - c1) + c2
	if b.IsConst() && a.Op == OpSub && a.Args[1].IsConst() {
		return c.Add(a.Args[0], c.Const(b.Val-a.Args[1].Val, w))
	}
	if !a.IsConst() && !b.IsConst() && a.ID > b.ID {
		a, b = b, a
	}
	return c.bin(OpAdd, a, b)
}

func (c *Ctx) Sub(a, b *Term) *Term {
	w := a.W()
	if a.IsConst() && b.IsConst() {
		return c.Const(a.Val-b.Val, w)
	}
	if b.IsConst() {
		return c.Add(a, c.Const(-b.Val, w))
	}
	if a == b {
		return c.Const(0, w)
	}
	// x - (x + c) = -c
	if b.Op == OpAdd && b.Args[0] == a && b.Args[1].IsConst() {
		return c.Const(-b.Args[1].Val, w)
	}
	// (x + y) - x = y ; (x + y) - y = x
	if a.Op == OpAdd {
		if a.Args[0] == b {
			return a.Args[1]
		}
		if a.Args[1] == b {
			return a.Args[0]
		}
		// (x + c) - (y + c') where x==y
		if b.Op == OpAdd && a.Args[0] == b.Args[0] && a.Args[1].IsConst() && b.Args[1].IsConst() {
			return c.Const(a.Args[1].Val-b.Args[1].Val, w)
		}
	}
	return c.bin(OpSub, a, b)
}

func (c *Ctx) Mul(a, b *Term) *Term {
	w := a.W()
	if a.IsConst() && b.IsConst() {
		return c.Const(a.Val*b.Val, w)
	}
	if a.IsConst() {
		a, b = b, a
	}
	if b.IsConst() {
		if b.Val == 0 {
			return b
		}
		if b.Val == 1 {
			return a
		}
	}
	if !a.IsConst() && !b.IsConst() && a.ID > b.ID {
		a, b = b, a
	}
	return c.bin(OpMul, a, b)
}

func (c *Ctx) UDiv(a, b *Term) *Term {
	if a.IsConst() && b.IsConst() && b.Val != 0 {
		return c.Const(a.Val/b.Val, a.W())
	}
	if b.IsConst() && b.Val == 1 {
		return a
	}
	if n := c.narrowDiv(OpUDiv, a, b); n != nil {
		return n
	}
	return c.bin(OpUDiv, a, b)
}
func (c *Ctx) URem(a, b *Term) *Term {
	if a.IsConst() && b.IsConst() && b.Val != 0 {
		return c.Const(a.Val%b.Val, a.W())
	}
	if n := c.narrowDiv(OpURem, a, b); n != nil {
		return n
	}
	return c.bin(OpURem, a, b)
}
func (c *Ctx) SDiv(a, b *Term) *Term {
	w := a.W()
	if a.IsConst() && b.IsConst() && b.Val != 0 {
		x, y := sext64(a.Val, w), sext64(b.Val, w)
		if y == -1 {
			return c.Const(uint64(-x), w)
		}
		return c.Const(uint64(x/y), w)
	}
	if n := c.narrowDiv(OpSDiv, a, b); n != nil {
		return n
	}
	return c.bin(OpSDiv, a, b)
}
func (c *Ctx) SRem(a, b *Term) *Term {
	w := a.W()
	if a.IsConst() && b.IsConst() && b.Val != 0 {
		x, y := sext64(a.Val, w), sext64(b.Val, w)
		if y == -1 {
			return c.Const(0, w)
		}
		return c.Const(uint64(x%y), w)
	}
	if n := c.narrowDiv(OpSRem, a, b); n != nil {
		return n
	}
	return c.bin(OpSRem, a, b)
}

func (c *Ctx) And(a, b *Term) *Term {
	w := a.W()
	if a.IsConst() && b.IsConst() {
		return c.Const(a.Val&b.Val, w)
	}
	if a.IsConst() {
		a, b = b, a
	}
	if b.IsConst() {
		if b.Val == 0 {
			return b
		}
		if b.Val == mask(w) {
			return a
		}
		if a.Op == OpAnd && a.Args[1].IsConst() {
			return c.And(a.Args[0], c.Const(a.Args[1].Val&b.Val, w))
		}
		// zext(x) & m where m covers all low bits of x
		if a.Op == OpZExt && (b.Val&mask(a.Args[0].W())) == mask(a.Args[0].W()) {
			return a
		}
		// ((x & m2) + k) & m = (x + k) & m for a low-bit mask m = 2^j-1 contained in m2: addition only carries upwards,
		// so bits of x above the mask cannot influence the masked sum (a masked counter incremented in a loop stays flat)
		if b.Val&(b.Val+1) == 0 && a.Op == OpAdd && a.Args[1].IsConst() {
			if in := a.Args[0]; in.Op == OpAnd && in.Args[1].IsConst() && in.Args[1].Val&b.Val == b.Val {
				return c.And(c.Add(in.Args[0], a.Args[1]), b)
			}
		}
		// (x ^ y) & m = (x & m) ^ (y & m): push constant masks to the leaves so that masking commutes with xor
		if a.Op == OpXor {
			return c.Xor(c.And(a.Args[0], b), c.And(a.Args[1], b))
		}
		// bits cleared by the mask are already known to be zero
		if kz := c.knownZero(a); (^b.Val)&mask(w)&^kz == 0 {
			return a
		}
		// x & (2^k-1) where x is known to lie in [0, 2^k-1]
		if b.Val&(b.Val+1) == 0 {
			if ia := c.interval(a); ia.ok && ia.lo >= 0 && uint64(ia.hi) <= b.Val {
				return a
			}
		}
	}
	if a == b {
		return a
	}
	if !a.IsConst() && !b.IsConst() && a.ID > b.ID {
		a, b = b, a
	}
	return c.bin(OpAnd, a, b)
}

type fld struct {
	off int
	t   *Term
}

// fields describes t as a set of non-overlapping placed sub-terms with zero bits elsewhere, if t is built from
// zero-extensions, left shifts by constants, concatenations and or/add of disjoint such pieces.
func (c *Ctx) fields(t *Term, depth int) ([]fld, bool) {
	if depth > 12 {
		return nil, false
	}
	switch t.Op {
	case OpZExt:
		in, ok := c.fields(t.Args[0], depth+1)
		if ok {
			return in, true
		}
		return []fld{{0, t.Args[0]}}, true
	case OpShl:
		if !t.Args[1].IsConst() {
			return nil, false
		}
		k := int(t.Args[1].Val)
		in, ok := c.fields(t.Args[0], depth+1)
		if !ok {
			return nil, false
		}
		var out []fld
		for _, f := range in {
			if f.off+k+f.t.W() > t.W() {
				return nil, false
			}
			out = append(out, fld{f.off + k, f.t})
		}
		return out, true
	case OpConcat:
		lo, ok1 := c.fields(t.Args[1], depth+1)
		if !ok1 {
			lo = []fld{{0, t.Args[1]}}
		}
		hi, ok2 := c.fields(t.Args[0], depth+1)
		if !ok2 {
			hi = []fld{{0, t.Args[0]}}
		}
		out := append([]fld{}, lo...)
		for _, f := range hi {
			out = append(out, fld{f.off + t.Args[1].W(), f.t})
		}
		return out, true
	case OpOr, OpAdd:
		a, ok1 := c.fields(t.Args[0], depth+1)
		b, ok2 := c.fields(t.Args[1], depth+1)
		if !ok1 || !ok2 {
			return nil, false
		}
		out := append(append([]fld{}, a...), b...)
		if !disjoint(out) {
			return nil, false
		}
		return out, true
	case OpConst:
		if t.Val == 0 {
			return []fld{}, true
		}
	}
	return nil, false
}

func disjoint(fs []fld) bool {
	sort.Slice(fs, func(i, j int) bool { return fs[i].off < fs[j].off })
	for i := 1; i < len(fs); i++ {
		if fs[i-1].off+fs[i-1].t.W() > fs[i].off {
			return false
		}
	}
	return true
}

// fromFields rebuilds the canonical term (zero-extended concatenation) of width w.
func (c *Ctx) fromFields(fs []fld, w int) *Term {
	sort.Slice(fs, func(i, j int) bool { return fs[i].off < fs[j].off })
	var r *Term
	pos := 0
	for _, f := range fs {
		if f.off > pos {
			z := c.Const(0, f.off-pos)
			if r == nil {
				r = z
			} else {
				r = c.Concat(z, r)
			}
			pos = f.off
		}
		if r == nil {
			r = f.t
		} else {
			r = c.Concat(f.t, r)
		}
		pos += f.t.W()
	}
	if r == nil {
		return c.Const(0, w)
	}
	return c.ZExt(r, w)
}

// shlConcat: or/add of disjoint placed pieces becomes a canonical concatenation.
func (c *Ctx) shlConcat(a, b *Term) *Term {
	if a.IsConst() || b.IsConst() {
		return nil
	}
	fa, ok := c.fields(a, 0)
	if !ok || len(fa) == 0 {
		return nil
	}
	fb, ok := c.fields(b, 0)
	if !ok || len(fb) == 0 {
		return nil
	}
	all := append(append([]fld{}, fa...), fb...)
	if !disjoint(all) {
		return nil
	}
	for _, f := range all {
		if f.off+f.t.W() > a.W() {
			return nil
		}
	}
	return c.fromFields(all, a.W())
}

func (c *Ctx) Or(a, b *Term) *Term {
	w := a.W()
	if a.IsConst() && b.IsConst() {
		return c.Const(a.Val|b.Val, w)
	}
	if r := c.shlConcat(a, b); r != nil {
		return r
	}
	if a.IsConst() {
		a, b = b, a
	}
	if b.IsConst() {
		if b.Val == 0 {
			return a
		}
		if b.Val == mask(w) {
			return b
		}
	}
	if a == b {
		return a
	}
	if !a.IsConst() && !b.IsConst() && a.ID > b.ID {
		a, b = b, a
	}
	return c.bin(OpOr, a, b)
}

// Xor builds a canonical form: the operand multiset is flattened, duplicates cancel, constants fold, and the
// remaining leaves are combined left to right in ascending term-id order. Syntactically different but
// AC-equivalent xor expressions therefore become the same term.
func (c *Ctx) Xor(a, b *Term) *Term {
	w := a.W()
	if a.IsConst() && b.IsConst() {
		return c.Const(a.Val^b.Val, w)
	}
	if a == b {
		return c.Const(0, w)
	}
	if a.Op != OpXor && b.Op != OpXor {
		if a.IsConst() {
			a, b = b, a
		}
		if b.IsConst() {
			if b.Val == 0 {
				return a
			}
			return c.bin(OpXor, a, b)
		}
		if a.ID > b.ID {
			a, b = b, a
		}
		return c.bin(OpXor, a, b)
	}
	var leaves []*Term
	var k uint64
	var collect func(t *Term)
	collect = func(t *Term) {
		for t.Op == OpXor {
			collect(t.Args[1])
			t = t.Args[0]
		}
		if t.IsConst() {
			k ^= t.Val
			return
		}
		leaves = append(leaves, t)
	}
	collect(a)
	collect(b)
	sort.Slice(leaves, func(i, j int) bool { return leaves[i].ID < leaves[j].ID })
	var out []*Term
	for i := 0; i < len(leaves); i++ {
		if i+1 < len(leaves) && leaves[i] == leaves[i+1] {
			i++
			continue
		}
		out = append(out, leaves[i])
	}
	k &= mask(w)
	if len(out) == 0 {
		return c.Const(k, w)
	}
	r := out[0]
	for _, t := range out[1:] {
		r = c.bin(OpXor, r, t)
	}
	if k != 0 {
		r = c.bin(OpXor, r, c.Const(k, w))
	}
	return r
}

func (c *Ctx) Not(a *Term) *Term {
	if a.IsConst() {
		return c.Const(^a.Val, a.W())
	}
	if a.Op == OpNot {
		return a.Args[0]
	}
	// ~(x - 1) = -x
	if a.Op == OpAdd && a.Args[1].IsConst() && a.Args[1].Val == mask(a.W()) {
		return c.Neg(a.Args[0])
	}
	return c.mk(&Term{Op: OpNot, S: a.S, Args: []*Term{a}})
}

func (c *Ctx) Neg(a *Term) *Term {
	if a.IsConst() {
		return c.Const(-a.Val, a.W())
	}
	return c.mk(&Term{Op: OpNeg, S: a.S, Args: []*Term{a}})
}

// Shl etc.: both operands same width; shift count >= width yields 0 (SMT-LIB semantics = Go semantics for unsigned count).
func (c *Ctx) Shl(a, b *Term) *Term {
	w := a.W()
	if b.IsConst() {
		if b.Val == 0 {
			return a
		}
		if b.Val >= uint64(w) {
			return c.Const(0, w)
		}
		if a.IsConst() {
			return c.Const(a.Val<<b.Val, w)
		}
		if a.Op == OpShl && a.Args[1].IsConst() {
			return c.Shl(a.Args[0], c.Const(a.Args[1].Val+b.Val, w))
		}
		// zext(x) << k with room for x: canonical concatenation with k zero bits
		if a.Op == OpZExt && a.Args[0].W()+int(b.Val) <= w {
			return c.ZExt(c.Concat(a.Args[0], c.Const(0, int(b.Val))), w)
		}
	}
	if a.IsConst() && a.Val == 0 {
		return a
	}
	return c.bin(OpShl, a, b)
}
func (c *Ctx) LShr(a, b *Term) *Term {
	w := a.W()
	if b.IsConst() {
		if b.Val == 0 {
			return a
		}
		if b.Val >= uint64(w) {
			return c.Const(0, w)
		}
		if a.IsConst() {
			return c.Const(a.Val>>b.Val, w)
		}
		if a.Op == OpLShr && a.Args[1].IsConst() {
			return c.LShr(a.Args[0], c.Const(a.Args[1].Val+b.Val, w))
		}
	}
	if a.IsConst() && a.Val == 0 {
		return a
	}
	return c.bin(OpLShr, a, b)
}
func (c *Ctx) AShr(a, b *Term) *Term {
	w := a.W()
	if b.IsConst() {
		if b.Val == 0 {
			return a
		}
		if a.IsConst() {
			x := sext64(a.Val, w)
			sh := b.Val
			if sh >= uint64(w) {
				sh = uint64(w - 1)
			}
			return c.Const(uint64(x>>sh), w)
		}
	}
	return c.bin(OpAShr, a, b)
}

func (c *Ctx) Concat(hi, lo *Term) *Term {
	w := hi.W() + lo.W()
	if w > 64 {
		panic("smt: concat wider than 64")
	}
	if hi.IsConst() && lo.IsConst() {
		return c.Const(hi.Val<<uint(lo.W())|lo.Val, w)
	}
	if hi.IsConst() && hi.Val == 0 {
		return c.ZExt(lo, w)
	}
	if hi.Op == OpConcat { // canonical right-nested form
		return c.Concat(hi.Args[0], c.Concat(hi.Args[1], lo))
	}
	// concat(extract(x,h,m+1), extract(x,m,l)) = extract(x,h,l)
	if hi.Op == OpExtract && lo.Op == OpExtract && hi.Args[0] == lo.Args[0] && hi.Lo == lo.Hi+1 {
		return c.Extract(hi.Args[0], hi.Hi, lo.Lo)
	}
	return c.mk(&Term{Op: OpConcat, S: BV(w), Args: []*Term{hi, lo}})
}

func (c *Ctx) Extract(a *Term, hi, lo int) *Term {
	if lo == 0 && hi-lo+1 == a.W() {
		return a
	}
	if a.Op == OpConst || a.Op == OpVar {
		return c.extract1(a, hi, lo)
	}
	key := [3]int{a.ID, hi, lo}
	if c.exMemo == nil {
		c.exMemo = map[[3]int]*Term{}
	}
	if r, ok := c.exMemo[key]; ok {
		return r
	}
	r := c.extract1(a, hi, lo)
	c.exMemo[key] = r
	return r
}

func (c *Ctx) extract1(a *Term, hi, lo int) *Term {
	w := hi - lo + 1
	if lo == 0 && w == a.W() {
		return a
	}
	if hi >= a.W() || lo < 0 || w <= 0 {
		panic(fmt.Sprintf("smt: bad extract [%d:%d] of width %d", hi, lo, a.W()))
	}
	switch a.Op {
	case OpConst:
		return c.Const(a.Val>>uint(lo), w)
	case OpExtract:
		return c.Extract(a.Args[0], a.Lo+hi, a.Lo+lo)
	case OpZExt:
		iw := a.Args[0].W()
		if hi < iw {
			return c.Extract(a.Args[0], hi, lo)
		}
		if lo >= iw {
			return c.Const(0, w)
		}
		return c.ZExt(c.Extract(a.Args[0], iw-1, lo), w)
	case OpSExt:
		iw := a.Args[0].W()
		if hi < iw {
			return c.Extract(a.Args[0], hi, lo)
		}
	case OpConcat:
		lw := a.Args[1].W()
		if hi < lw {
			return c.Extract(a.Args[1], hi, lo)
		}
		if lo >= lw {
			return c.Extract(a.Args[0], hi-lw, lo-lw)
		}
		return c.Concat(c.Extract(a.Args[0], hi-lw, 0), c.Extract(a.Args[1], lw-1, lo))
	case OpAnd, OpOr, OpXor:
		// push extraction through bitwise ops when one side is constant or when extracting low part
		x, y := a.Args[0], a.Args[1]
		if y.IsConst() || x.IsConst() || true {
			ex, ey := c.Extract(x, hi, lo), c.Extract(y, hi, lo)
			switch a.Op {
			case OpAnd:
				return c.And(ex, ey)
			case OpOr:
				return c.Or(ex, ey)
			default:
				return c.Xor(ex, ey)
			}
		}
	case OpNot:
		return c.Not(c.Extract(a.Args[0], hi, lo))
	case OpIte:
		if a.Args[1].IsConst() && a.Args[2].IsConst() {
			return c.Ite(a.Args[0], c.Extract(a.Args[1], hi, lo), c.Extract(a.Args[2], hi, lo))
		}
	case OpShl:
		if a.Args[1].IsConst() {
			k := int(a.Args[1].Val)
			if lo >= k {
				return c.Extract(a.Args[0], hi-k, lo-k)
			}
			if hi < k {
				return c.Const(0, w)
			}
			return c.Concat(c.Extract(a.Args[0], hi-k, 0), c.Const(0, k-lo))
		}
	case OpLShr:
		if a.Args[1].IsConst() {
			k := int(a.Args[1].Val)
			aw := a.W()
			if hi+k < aw {
				return c.Extract(a.Args[0], hi+k, lo+k)
			}
			if lo+k >= aw {
				return c.Const(0, w)
			}
			return c.ZExt(c.Extract(a.Args[0], aw-1, lo+k), w)
		}
	case OpAdd, OpSub, OpMul:
		if lo == 0 {
			// low bits of modular arithmetic depend only on low bits
			x, y := c.Extract(a.Args[0], hi, 0), c.Extract(a.Args[1], hi, 0)
			switch a.Op {
			case OpAdd:
				return c.Add(x, y)
			case OpSub:
				return c.Sub(x, y)
			default:
				return c.Mul(x, y)
			}
		}
	}
	return c.mk(&Term{Op: OpExtract, S: BV(w), Args: []*Term{a}, Hi: hi, Lo: lo})
}

func (c *Ctx) ZExt(a *Term, w int) *Term {
	if w == a.W() {
		return a
	}
	if w < a.W() {
		panic("smt: zext to smaller width")
	}
	if a.IsConst() {
		return c.Const(a.Val, w)
	}
	if a.Op == OpZExt {
		return c.ZExt(a.Args[0], w)
	}
	if a.Op == OpIte && a.Args[1].IsConst() && a.Args[2].IsConst() {
		return c.Ite(a.Args[0], c.ZExt(a.Args[1], w), c.ZExt(a.Args[2], w))
	}
	// zext(x[k-1:0]) = x when x is known to fit in k bits (a length that was written to the wire and read back)
	if a.Op == OpExtract && a.Lo == 0 && a.Args[0].W() == w && a.W() < 62 {
		if ix := c.interval(a.Args[0]); ix.ok && ix.lo >= 0 && ix.hi <= int64(mask(a.W())) {
			return a.Args[0]
		}
	}
	return c.mk(&Term{Op: OpZExt, S: BV(w), Args: []*Term{a}})
}

func (c *Ctx) SExt(a *Term, w int) *Term {
	if w == a.W() {
		return a
	}
	if w < a.W() {
		panic("smt: sext to smaller width")
	}
	if a.IsConst() {
		return c.Const(uint64(sext64(a.Val, a.W())), w)
	}
	if a.Op == OpZExt {
		return c.ZExt(a.Args[0], w)
	}
	return c.mk(&Term{Op: OpSExt, S: BV(w), Args: []*Term{a}})
}

func (c *Ctx) Ite(cond, a, b *Term) *Term {
	if a.S != b.S {
		panic(fmt.Sprintf("smt: ite sort mismatch %v vs %v", a.S, b.S))
	}
	if cond.IsConst() {
		if cond.Val != 0 {
			return a
		}
		return b
	}
	if a == b {
		return a
	}
	if a.S.IsBool() {
		if a.IsConst() && b.IsConst() {
			if a.Val != 0 {
				return cond
			}
			return c.BNot(cond)
		}
		if a.IsConst() {
			if a.Val != 0 {
				return c.BOr(cond, b)
			}
			return c.BAnd(c.BNot(cond), b)
		}
		if b.IsConst() {
			if b.Val != 0 {
				return c.BOr(c.BNot(cond), a)
			}
			return c.BAnd(cond, a)
		}
	}
	if cond.Op == OpBNot {
		return c.Ite(cond.Args[0], b, a)
	}
	// ite(c, ite(c, x, y), z) = ite(c, x, z)
	if a.Op == OpIte && a.Args[0] == cond {
		a = a.Args[1]
	}
	if b.Op == OpIte && b.Args[0] == cond {
		b = b.Args[2]
	}
	if a == b {
		return a
	}
	return c.mk(&Term{Op: OpIte, S: a.S, Args: []*Term{cond, a, b}})
}

func (c *Ctx) Eq(a, b *Term) *Term {
	if a.S != b.S {
		panic(fmt.Sprintf("smt: eq sort mismatch %v vs %v", a.S, b.S))
	}
	if a == b {
		return c.True
	}
	if a.IsConst() && b.IsConst() {
		return c.Bool(a.Val == b.Val)
	}
	if a.IsConst() {
		a, b = b, a
	}
	if a.S.IsBool() {
		if b.IsConst() {
			if b.Val != 0 {
				return a
			}
			return c.BNot(a)
		}
	}
	if b.IsConst() {
		// eq(ite(c, k1, k2), k)
		if a.Op == OpIte && (a.Args[1].IsConst() || a.Args[2].IsConst()) {
			return c.Ite(a.Args[0], c.Eq(a.Args[1], b), c.Eq(a.Args[2], b))
		}
		// eq(zext(x), k)
		if a.Op == OpZExt {
			iw := a.Args[0].W()
			if b.Val > mask(iw) {
				return c.False
			}
			return c.Eq(a.Args[0], c.Const(b.Val, iw))
		}
		// eq(x + k1, k) => eq(x, k - k1)
		if a.Op == OpAdd && a.Args[1].IsConst() {
			return c.Eq(a.Args[0], c.Const(b.Val-a.Args[1].Val, a.W()))
		}
	}
	// eq(ite(c, x, y), x) = c or eq(y, x)   (and symmetric variants)
	for k := 0; k < 2; k++ {
		if a.Op == OpIte {
			if a.Args[1] == b {
				return c.BOr(a.Args[0], c.Eq(a.Args[2], b))
			}
			if a.Args[2] == b {
				return c.BOr(c.BNot(a.Args[0]), c.Eq(a.Args[1], b))
			}
		}
		a, b = b, a
	}
	if !a.S.IsBool() && !a.S.IsArray() {
		if ia, ib := c.interval(a), c.interval(b); ia.ok && ib.ok && (ia.hi < ib.lo || ib.hi < ia.lo) {
			return c.False
		}
	}
	if a.ID > b.ID && !b.IsConst() {
		a, b = b, a
	}
	return c.mk(&Term{Op: OpEq, S: BoolSort, Args: []*Term{a, b}})
}

// AssumeRange records that the variable v lies in [0, hi] (unsigned) for interval folding and returns the constraint
// as a raw, never folded term. The caller MUST assume the returned term on every path that uses v: all folds
// derived from the recorded range are only valid under it.
func (c *Ctx) AssumeRange(v *Term, hi int64) *Term {
	if c.rangeCons == nil {
		c.rangeCons = map[int]*Term{}
	}
	if t, ok := c.rangeCons[v.ID]; ok {
		return t
	}
	t := c.mk(&Term{Op: OpUle, S: BoolSort, Args: []*Term{v, c.Const(uint64(hi), v.W())}})
	c.rangeCons[v.ID] = t
	if c.ivals == nil {
		c.ivals = map[int]ival{}
	}
	c.ivals[v.ID] = ival{0, hi, true}
	return t
}

func (c *Ctx) cmp(op Op, a, b *Term) *Term {
	if a.S != b.S {
		panic(fmt.Sprintf("smt: cmp sort mismatch %v vs %v", a.S, b.S))
	}
	w := a.W()
	if a.IsConst() && b.IsConst() {
		switch op {
		case OpUlt:
			return c.Bool(a.Val < b.Val)
		case OpUle:
			return c.Bool(a.Val <= b.Val)
		case OpSlt:
			return c.Bool(sext64(a.Val, w) < sext64(b.Val, w))
		case OpSle:
			return c.Bool(sext64(a.Val, w) <= sext64(b.Val, w))
		}
	}
	if a == b {
		return c.Bool(op == OpUle || op == OpSle)
	}
	// x + k1 cmp x + k2 with the same base x: decided by the constants when neither side can wrap
	if ba, ka := linBase(a); ba != nil {
		if bb, kb := linBase(b); bb == ba && w == 64 {
			if ix := c.interval(ba); ix.ok {
				sa, sb := int64(ka), int64(kb)
				lo1, hi1, ok1 := addNoWrap(ix, sa)
				lo2, hi2, ok2 := addNoWrap(ix, sb)
				signed := op == OpSlt || op == OpSle
				if ok1 && ok2 && (signed || (lo1 >= 0 && lo2 >= 0)) {
					_, _ = hi1, hi2
					switch op {
					case OpUlt, OpSlt:
						return c.Bool(sa < sb)
					default:
						return c.Bool(sa <= sb)
					}
				}
			}
		}
	}
	if w < 62 || true {
		ia, ib := c.interval(a), c.interval(b)
		if ia.ok && ib.ok {
			signedOK := op == OpSlt || op == OpSle
			if !signedOK && w == 64 {
				// a value whose signed interval is entirely negative is at least 2^63 as an unsigned number
				if ia.hi < 0 && ib.lo >= 0 {
					return c.False
				}
				if ib.hi < 0 && ia.lo >= 0 {
					return c.True
				}
			}
			if signedOK || (ia.lo >= 0 && ib.lo >= 0) {
				switch op {
				case OpUlt, OpSlt:
					if ia.hi < ib.lo {
						return c.True
					}
					if ia.lo >= ib.hi {
						return c.False
					}
				case OpUle, OpSle:
					if ia.hi <= ib.lo {
						return c.True
					}
					if ia.lo > ib.hi {
						return c.False
					}
				}
			}
		}
	}
	switch op {
	case OpUlt:
		if b.IsConst() && b.Val == 0 {
			return c.False
		}
		if a.IsConst() && a.Val == mask(w) {
			return c.False
		}
	case OpUle:
		if a.IsConst() && a.Val == 0 {
			return c.True
		}
		if b.IsConst() && b.Val == mask(w) {
			return c.True
		}
	}
	// zext(x) cmp const, both non-negative in signed view: reduce to narrow unsigned compare
	if a.Op == OpZExt && b.IsConst() && a.Args[0].W() < w {
		iw := a.Args[0].W()
		bv := b.Val
		neg := (op == OpSlt || op == OpSle) && sext64(bv, w) < 0
		if neg {
			return c.False // nonneg < negative is false; <= also false
		}
		if bv > mask(iw) {
			return c.True
		}
		nop := op
		if op == OpSlt {
			nop = OpUlt
		} else if op == OpSle {
			nop = OpUle
		}
		return c.cmp(nop, a.Args[0], c.Const(bv, iw))
	}
	if b.Op == OpZExt && a.IsConst() && b.Args[0].W() < w {
		iw := b.Args[0].W()
		av := a.Val
		neg := (op == OpSlt || op == OpSle) && sext64(av, w) < 0
		if neg {
			return c.True
		}
		if av > mask(iw) {
			return c.False
		}
		nop := op
		if op == OpSlt {
			nop = OpUlt
		} else if op == OpSle {
			nop = OpUle
		}
		return c.cmp(nop, c.Const(av, iw), b.Args[0])
	}
	if a.Op == OpZExt && b.Op == OpZExt && a.Args[0].W() == b.Args[0].W() && a.Args[0].W() < w {
		nop := op
		if op == OpSlt {
			nop = OpUlt
		} else if op == OpSle {
			nop = OpUle
		}
		return c.cmp(nop, a.Args[0], b.Args[0])
	}
	return c.mk(&Term{Op: op, S: BoolSort, Args: []*Term{a, b}})
}

func (c *Ctx) Ult(a, b *Term) *Term { return c.cmp(OpUlt, a, b) }
func (c *Ctx) Ule(a, b *Term) *Term { return c.cmp(OpUle, a, b) }
func (c *Ctx) Slt(a, b *Term) *Term { return c.cmp(OpSlt, a, b) }
func (c *Ctx) Sle(a, b *Term) *Term { return c.cmp(OpSle, a, b) }

func (c *Ctx) BNot(a *Term) *Term {
	if a.IsConst() {
		return c.Bool(a.Val == 0)
	}
	if a.Op == OpBNot {
		return a.Args[0]
	}
	return c.mk(&Term{Op: OpBNot, S: BoolSort, Args: []*Term{a}})
}

func (c *Ctx) BAnd(a, b *Term) *Term {
	if a.IsConst() {
		if a.Val != 0 {
			return b
		}
		return a
	}
	if b.IsConst() {
		if b.Val != 0 {
			return a
		}
		return b
	}
	if a == b {
		return a
	}
	if (a.Op == OpBNot && a.Args[0] == b) || (b.Op == OpBNot && b.Args[0] == a) {
		return c.False
	}
	return c.mk(&Term{Op: OpBAnd, S: BoolSort, Args: []*Term{a, b}})
}

func (c *Ctx) BOr(a, b *Term) *Term {
	if a.IsConst() {
		if a.Val != 0 {
			return a
		}
		return b
	}
	if b.IsConst() {
		if b.Val != 0 {
			return b
		}
		return a
	}
	if a == b {
		return a
	}
	if (a.Op == OpBNot && a.Args[0] == b) || (b.Op == OpBNot && b.Args[0] == a) {
		return c.True
	}
	neg := func(x, y *Term) bool { return (x.Op == OpBNot && x.Args[0] == y) || (y.Op == OpBNot && y.Args[0] == x) }
	if b.Op == OpBOr && (neg(a, b.Args[0]) || neg(a, b.Args[1])) {
		return c.True
	}
	if a.Op == OpBOr && (neg(b, a.Args[0]) || neg(b, a.Args[1])) {
		return c.True
	}
	return c.mk(&Term{Op: OpBOr, S: BoolSort, Args: []*Term{a, b}})
}

func (c *Ctx) Implies(a, b *Term) *Term { return c.BOr(c.BNot(a), b) }

func (c *Ctx) AndAll(ts []*Term) *Term {
	r := c.True
	for _, t := range ts {
		r = c.BAnd(r, t)
	}
	return r
}

func (c *Ctx) Select(arr, idx *Term) *Term {
	if !arr.S.IsArray() || idx.S.W != arr.S.AI {
		panic("smt: bad select")
	}
	// read-over-write with syntactically equal / distinct constant indices
	for arr.Op == OpStore {
		if arr.Args[1] == idx {
			return arr.Args[2]
		}
		if arr.Args[1].IsConst() && idx.IsConst() {
			arr = arr.Args[0]
			continue
		}
		break
	}
	if arr.Op == OpConstArray {
		return arr.Args[0]
	}
	rs := BoolSort
	if arr.S.AE > 0 {
		rs = BV(arr.S.AE)
	}
	return c.mk(&Term{Op: OpSelect, S: rs, Args: []*Term{arr, idx}})
}

func (c *Ctx) ConstArray(s Sort, def *Term) *Term {
	return c.mk(&Term{Op: OpConstArray, S: s, Args: []*Term{def}})
}

func (c *Ctx) Store(arr, idx, v *Term) *Term {
	return c.mk(&Term{Op: OpStore, S: arr.S, Args: []*Term{arr, idx, v}})
}

// Resize converts a BV to width w, zero- or sign-extending or truncating.
func (c *Ctx) Resize(a *Term, w int, signed bool) *Term {
	if a.W() == w {
		return a
	}
	if a.W() > w {
		return c.Extract(a, w-1, 0)
	}
	if signed {
		return c.SExt(a, w)
	}
	return c.ZExt(a, w)
}

// BoolToBV converts a boolean term to a 1-bit... (helper for models)
func (c *Ctx) BoolToBV(b *Term, w int) *Term {
	return c.Ite(b, c.Const(1, w), c.Const(0, w))
}

func (t *Term) String() string {
	var sb strings.Builder
	t.write(&sb, 0)
	return sb.String()
}

func (t *Term) write(sb *strings.Builder, depth int) {
	if depth > 6 {
		fmt.Fprintf(sb, "t%d", t.ID)
		return
	}
	switch t.Op {
	case OpConst:
		if t.S.IsBool() {
			if t.Val != 0 {
				sb.WriteString("true")
			} else {
				sb.WriteString("false")
			}
		} else {
			fmt.Fprintf(sb, "%#x:%d", t.Val, t.S.W)
		}
	case OpVar:
		sb.WriteString(t.Name)
	default:
		sb.WriteString("(")
		if t.Op == OpApp {
			sb.WriteString(t.Name)
		} else if t.Op == OpExtract {
			fmt.Fprintf(sb, "extract[%d:%d]", t.Hi, t.Lo)
		} else if t.Op == OpZExt || t.Op == OpSExt {
			fmt.Fprintf(sb, "%s%d", opNames[t.Op], t.S.W)
		} else {
			sb.WriteString(opNames[t.Op])
		}
		for _, a := range t.Args {
			sb.WriteString(" ")
			a.write(sb, depth+1)
		}
		sb.WriteString(")")
	}
}

// Eval evaluates a term under an assignment of variables (and function tables); returns ok=false if something is missing.
func (c *Ctx) Eval(t *Term, env map[string]uint64, memo map[int]uint64) (uint64, bool) {
	if v, ok := memo[t.ID]; ok {
		return v, true
	}
	var r uint64
	av := make([]uint64, len(t.Args))
	if t.Op != OpApp && t.Op != OpSelect && t.Op != OpStore {
		for i, a := range t.Args {
			v, ok := c.Eval(a, env, memo)
			if !ok {
				return 0, false
			}
			av[i] = v
		}
	}
	w := t.S.W
	b2u := func(b bool) uint64 {
		if b {
			return 1
		}
		return 0
	}
	switch t.Op {
	case OpConst:
		r = t.Val
	case OpVar:
		v, ok := env[t.Name]
		if !ok {
			v = 0 // unconstrained variables default to 0
		}
		r = v
	case OpAdd:
		r = av[0] + av[1]
	case OpSub:
		r = av[0] - av[1]
	case OpMul:
		r = av[0] * av[1]
	case OpUDiv:
		if av[1] == 0 {
			r = mask(w)
		} else {
			r = av[0] / av[1]
		}
	case OpURem:
		if av[1] == 0 {
			r = av[0]
		} else {
			r = av[0] % av[1]
		}
	case OpSDiv:
		x, y := sext64(av[0], w), sext64(av[1], w)
		if y == 0 {
			if x >= 0 {
				r = mask(w)
			} else {
				r = 1
			}
		} else if y == -1 {
			r = uint64(-x)
		} else {
			r = uint64(x / y)
		}
	case OpSRem:
		x, y := sext64(av[0], w), sext64(av[1], w)
		if y == 0 {
			r = uint64(x)
		} else if y == -1 {
			r = 0
		} else {
			r = uint64(x % y)
		}
	case OpAnd:
		r = av[0] & av[1]
	case OpOr:
		r = av[0] | av[1]
	case OpXor:
		r = av[0] ^ av[1]
	case OpNot:
		r = ^av[0]
	case OpNeg:
		r = -av[0]
	case OpShl:
		if av[1] >= uint64(w) {
			r = 0
		} else {
			r = av[0] << av[1]
		}
	case OpLShr:
		if av[1] >= uint64(w) {
			r = 0
		} else {
			r = av[0] >> av[1]
		}
	case OpAShr:
		sh := av[1]
		if sh >= uint64(w) {
			sh = uint64(w - 1)
		}
		r = uint64(sext64(av[0], w) >> sh)
	case OpConcat:
		r = av[0]<<uint(t.Args[1].W()) | av[1]
	case OpExtract:
		r = av[0] >> uint(t.Lo)
	case OpZExt:
		r = av[0]
	case OpSExt:
		r = uint64(sext64(av[0], t.Args[0].W()))
	case OpIte:
		if av[0] != 0 {
			r = av[1]
		} else {
			r = av[2]
		}
	case OpEq:
		r = b2u(av[0] == av[1])
	case OpUlt:
		r = b2u(av[0] < av[1])
	case OpUle:
		r = b2u(av[0] <= av[1])
	case OpSlt:
		r = b2u(sext64(av[0], t.Args[0].W()) < sext64(av[1], t.Args[0].W()))
	case OpSle:
		r = b2u(sext64(av[0], t.Args[0].W()) <= sext64(av[1], t.Args[0].W()))
	case OpBAnd:
		r = av[0] & av[1]
	case OpBOr:
		r = av[0] | av[1]
	case OpBNot:
		r = av[0] ^ 1
	default:
		return 0, false
	}
	if w > 0 {
		r &= mask(w)
	} else {
		r &= 1
	}
	memo[t.ID] = r
	return r, true
}

// ---------- cheap signed interval analysis (used to narrow division / remainder circuits) ----------

type ival struct {
	lo, hi int64
	ok     bool
}

func (c *Ctx) interval(t *Term) ival {
	if c.ivals == nil {
		c.ivals = map[int]ival{}
	}
	if v, ok := c.ivals[t.ID]; ok {
		return v
	}
	r := c.interval1(t)
	c.ivals[t.ID] = r
	return r
}

const ivalLim = int64(1) << 60

func (c *Ctx) interval1(t *Term) ival {
	w := t.S.W
	if w <= 0 || t.S.IsArray() {
		return ival{}
	}
	full := func() ival {
		if w >= 62 {
			return ival{}
		}
		return ival{-(int64(1) << uint(w-1)), int64(1)<<uint(w-1) - 1, true}
	}
	fits := func(lo, hi int64) ival {
		if lo < -ivalLim || hi > ivalLim || lo > hi {
			return full()
		}
		if w < 63 {
			mn, mx := -(int64(1) << uint(w-1)), int64(1)<<uint(w-1)-1
			if lo < mn || hi > mx {
				return full() // may wrap
			}
		}
		return ival{lo, hi, true}
	}
	switch t.Op {
	case OpConst:
		v := sext64(t.Val, w)
		return ival{v, v, true}
	case OpZExt:
		iw := t.Args[0].W()
		if iw >= 62 {
			return ival{}
		}
		a := c.interval(t.Args[0])
		if a.ok && a.lo >= 0 {
			return a
		}
		return ival{0, int64(1)<<uint(iw) - 1, true}
	case OpSExt:
		a := c.interval(t.Args[0])
		if a.ok {
			return a
		}
		iw := t.Args[0].W()
		if iw >= 62 {
			return ival{}
		}
		return ival{-(int64(1) << uint(iw-1)), int64(1)<<uint(iw-1) - 1, true}
	case OpAdd:
		a, b := c.interval(t.Args[0]), c.interval(t.Args[1])
		if a.ok && b.ok {
			return fits(a.lo+b.lo, a.hi+b.hi)
		}
	case OpSub:
		a, b := c.interval(t.Args[0]), c.interval(t.Args[1])
		if a.ok && b.ok {
			return fits(a.lo-b.hi, a.hi-b.lo)
		}
	case OpIte:
		a, b := c.interval(t.Args[1]), c.interval(t.Args[2])
		if a.ok && b.ok {
			lo, hi := a.lo, a.hi
			if b.lo < lo {
				lo = b.lo
			}
			if b.hi > hi {
				hi = b.hi
			}
			return ival{lo, hi, true}
		}
	case OpMul:
		a, b := c.interval(t.Args[0]), c.interval(t.Args[1])
		if a.ok && b.ok {
			const lim = int64(1) << 30
			if a.lo > -lim && a.hi < lim && b.lo > -lim && b.hi < lim {
				ps := []int64{a.lo * b.lo, a.lo * b.hi, a.hi * b.lo, a.hi * b.hi}
				lo, hi := ps[0], ps[0]
				for _, p := range ps[1:] {
					if p < lo {
						lo = p
					}
					if p > hi {
						hi = p
					}
				}
				return fits(lo, hi)
			}
		}
	case OpSDiv:
		b := c.interval(t.Args[1])
		a := c.interval(t.Args[0])
		if a.ok && b.ok && b.lo == b.hi && b.lo > 0 {
			return ival{a.lo / b.lo, a.hi / b.lo, true}
		}
	case OpUDiv:
		b := c.interval(t.Args[1])
		a := c.interval(t.Args[0])
		if a.ok && b.ok && b.lo == b.hi && b.lo > 0 && a.lo >= 0 {
			return ival{a.lo / b.lo, a.hi / b.lo, true}
		}
	case OpNeg:
		a := c.interval(t.Args[0])
		if a.ok {
			return fits(-a.hi, -a.lo)
		}
	case OpSRem:
		b := c.interval(t.Args[1])
		if b.ok && b.lo == b.hi && b.lo > 0 {
			a := c.interval(t.Args[0])
			lo, hi := -(b.lo - 1), b.lo-1
			if a.ok && a.lo >= 0 {
				lo = 0
			}
			if a.ok && a.hi <= 0 {
				hi = 0
			}
			return ival{lo, hi, true}
		}
	case OpURem:
		b := c.interval(t.Args[1])
		if b.ok && b.lo == b.hi && b.lo > 0 {
			return ival{0, b.lo - 1, true}
		}
	case OpAnd:
		best := int64(-1)
		for _, x := range t.Args {
			a := c.interval(x)
			if a.ok && a.lo >= 0 && (best < 0 || a.hi < best) {
				best = a.hi
			}
		}
		if best >= 0 {
			return ival{0, best, true}
		}
	case OpXor, OpOr:
		a, b := c.interval(t.Args[0]), c.interval(t.Args[1])
		if a.ok && b.ok && a.lo >= 0 && b.lo >= 0 {
			m := a.hi
			if b.hi > m {
				m = b.hi
			}
			n := 0
			for (int64(1)<<uint(n))-1 < m {
				n++
			}
			return ival{0, int64(1)<<uint(n) - 1, true}
		}
	case OpLShr:
		if k, ok := t.Args[1], t.Args[1].IsConst(); ok && k.Val > 0 && k.Val < uint64(w) && w-int(k.Val) < 62 {
			return ival{0, int64(1)<<uint(w-int(k.Val)) - 1, true}
		}
		a := c.interval(t.Args[0])
		if a.ok && a.lo >= 0 {
			return ival{0, a.hi, true}
		}
	case OpExtract:
		if t.Lo == 0 {
			a := c.interval(t.Args[0])
			if a.ok && a.lo >= 0 && w < 62 && a.hi < int64(1)<<uint(w-1) {
				return a
			}
		}
	}
	return full()
}

func bitsFor(iv ival) int {
	// number of bits for a signed representation of every value in iv
	n := 2
	for n < 64 {
		mn, mx := -(int64(1) << uint(n-1)), int64(1)<<uint(n-1)-1
		if iv.lo >= mn && iv.hi <= mx {
			return n
		}
		n++
	}
	return 64
}

// narrowDiv tries to perform a signed/unsigned division-like operation at a smaller width.
func (c *Ctx) narrowDiv(op Op, a, b *Term) *Term {
	w := a.W()
	if w < 16 {
		return nil
	}
	ia, ib := c.interval(a), c.interval(b)
	if !ia.ok || !ib.ok {
		return nil
	}
	if (op == OpUDiv || op == OpURem) && (ia.lo < 0 || ib.lo < 0) {
		return nil
	}
	k := bitsFor(ia)
	if kb := bitsFor(ib); kb > k {
		k = kb
	}
	k++ // room for -(min)
	if k >= w-3 {
		return nil
	}
	na, nb := c.Extract(a, k-1, 0), c.Extract(b, k-1, 0)
	var r *Term
	switch op {
	case OpSDiv:
		r = c.bin(OpSDiv, na, nb)
	case OpSRem:
		r = c.bin(OpSRem, na, nb)
	case OpUDiv:
		r = c.bin(OpUDiv, na, nb)
	case OpURem:
		r = c.bin(OpURem, na, nb)
	}
	// division by zero is excluded by the caller's run-time check; results fit in k bits by construction
	if op == OpUDiv || op == OpURem {
		return c.ZExt(r, w)
	}
	return c.SExt(r, w)
}

// Diff descends into two terms of equal shape and returns the smallest pair of sub-terms at which they differ.
func Diff(a, b *Term) (*Term, *Term) {
	for {
		if a == b {
			return nil, nil
		}
		if a.Op == OpXor && b.Op == OpXor {
			la, lb := xorLeaves(a), xorLeaves(b)
			inB := map[int]bool{}
			for _, t := range lb {
				inB[t.ID] = true
			}
			inA := map[int]bool{}
			for _, t := range la {
				inA[t.ID] = true
			}
			var ra, rb []*Term
			for _, t := range la {
				if !inB[t.ID] {
					ra = append(ra, t)
				}
			}
			for _, t := range lb {
				if !inA[t.ID] {
					rb = append(rb, t)
				}
			}
			if len(ra) == 1 && len(rb) == 1 {
				a, b = ra[0], rb[0]
				continue
			}
			if len(ra) > 0 && len(rb) > 0 {
				// several leaves differ: try to pair leaves of equal shape
				for _, x := range ra {
					for _, y := range rb {
						if x.Op == y.Op && x.Op != OpVar && len(x.Args) == len(y.Args) {
							return Diff(x, y)
						}
					}
				}
				return ra[0], rb[0]
			}
			return a, b
		}
		if a.Op != b.Op || len(a.Args) != len(b.Args) || a.S != b.S || a.Name != b.Name || a.Hi != b.Hi || a.Lo != b.Lo || len(a.Args) == 0 {
			return a, b
		}
		var da, db *Term
		n := 0
		for i := range a.Args {
			if a.Args[i] != b.Args[i] {
				n++
				if da == nil {
					da, db = a.Args[i], b.Args[i]
				}
			}
		}
		if n != 1 {
			// several children differ: report the first differing child pair's own diff if it is deep, else this level
			x, y := Diff(da, db)
			if x != nil {
				return x, y
			}
			return a, b
		}
		a, b = da, db
	}
}

func xorLeaves(t *Term) []*Term {
	var out []*Term
	for t.Op == OpXor {
		out = append(out, xorLeaves(t.Args[1])...)
		t = t.Args[0]
	}
	return append(out, t)
}

// knownZero returns a mask of bit positions of t that are certainly 0.
func (c *Ctx) knownZero(t *Term) uint64 {
	if c.kz == nil {
		c.kz = map[int]uint64{}
	}
	if v, ok := c.kz[t.ID]; ok {
		return v
	}
	w := t.S.W
	var r uint64
	if w > 0 && !t.S.IsArray() {
		m := mask(w)
		switch t.Op {
		case OpConst:
			r = ^t.Val & m
		case OpZExt:
			iw := t.Args[0].W()
			r = (m &^ mask(iw)) | c.knownZero(t.Args[0])
		case OpAnd:
			r = c.knownZero(t.Args[0]) | c.knownZero(t.Args[1])
		case OpOr, OpXor:
			r = c.knownZero(t.Args[0]) & c.knownZero(t.Args[1])
		case OpShl:
			if t.Args[1].IsConst() && t.Args[1].Val < uint64(w) {
				k := t.Args[1].Val
				r = ((c.knownZero(t.Args[0]) << k) | mask(int(k))) & m
				if k == 0 {
					r = c.knownZero(t.Args[0])
				}
			}
		case OpLShr:
			if t.Args[1].IsConst() && t.Args[1].Val < uint64(w) {
				k := t.Args[1].Val
				r = (c.knownZero(t.Args[0]) >> k) | (m &^ (m >> k))
			}
		case OpConcat:
			lw := t.Args[1].W()
			r = (c.knownZero(t.Args[0]) << uint(lw)) | c.knownZero(t.Args[1])
		case OpExtract:
			r = (c.knownZero(t.Args[0]) >> uint(t.Lo)) & m
		case OpIte:
			r = c.knownZero(t.Args[1]) & c.knownZero(t.Args[2])
		}
		r &= m
	}
	c.kz[t.ID] = r
	return r
}

// linBase splits t into base + constant (base nil for other shapes); a bare term is base + 0.
func linBase(t *Term) (*Term, uint64) {
	if t.IsConst() {
		return nil, t.Val
	}
	if t.Op == OpAdd && t.Args[1].IsConst() {
		return t.Args[0], t.Args[1].Val
	}
	return t, 0
}

// addNoWrap: the interval of x + k when it provably stays inside the signed 64-bit range.
func addNoWrap(ix ival, k int64) (lo, hi int64, ok bool) {
	const lim = int64(1) << 62
	if ix.lo < -lim || ix.hi > lim || k < -lim || k > lim {
		return 0, 0, false
	}
	return ix.lo + k, ix.hi + k, true
}
