package smt

import (
	"bufio"
	"fmt"
	"io"
	"os"
	"os/exec"
	"strconv"
	"strings"
	"time"
)

type Result int

const (
	Unsat Result = iota
	Sat
	Unknown
)

func (r Result) String() string { return [...]string{"unsat", "sat", "unknown"}[r] }

// Solver wraps one long-lived SMT solver process ("z3 -in"). Definitions for terms are emitted once at
// the base level; every query is (push) asserts (check-sat) [(get-value)] (pop).
type Solver struct {
	Ctx     *Ctx
	cmd     *exec.Cmd
	in      io.WriteCloser
	out     *bufio.Reader
	defined []bool // by term id
	declV   map[string]bool
	declF   map[string]bool
	Log     io.Writer
	Kind    string // z3 | z3-new | cvc5
	TimeoutMs int
	// statistics
	Queries  int
	NSat, NUnsat, NUnknown int
	Time     time.Duration
	Errors   []string
	dead     bool
	axioms   []*Term
	axiomSet map[int]bool
	curTimeout int
	TooLarge   int
	fb         map[string]*Solver
	isFallback bool
	NFallback  int // queries decided by a fallback solver
}

// MaxNewTerms bounds the number of term nodes a single query may add to the solver.
var MaxNewTerms = 40000

// countNew counts term nodes reachable from ts that the solver has not been told about yet (stops above limit).
func (s *Solver) countNew(ts []*Term, limit int) int {
	seen := map[int]bool{}
	n := 0
	var stack []*Term
	stack = append(stack, ts...)
	for len(stack) > 0 && n <= limit {
		t := stack[len(stack)-1]
		stack = stack[:len(stack)-1]
		if seen[t.ID] || (t.ID < len(s.defined) && s.defined[t.ID]) || t.Op == OpConst {
			continue
		}
		seen[t.ID] = true
		n++
		stack = append(stack, t.Args...)
	}
	return n
}

// SetTimeout changes the per-query timeout of the running solver.
func (s *Solver) SetTimeout(ms int) {
	if ms <= 0 || ms == s.curTimeout {
		return
	}
	s.curTimeout = ms
	if s.dead {
		return
	}
	if s.Kind == "cvc5" {
		s.send(fmt.Sprintf("(set-option :tlimit-per %d)", ms))
	} else {
		s.send(fmt.Sprintf("(set-option :timeout %d)", ms))
	}
}

// AddAxiom asserts t permanently (at the base level).
func (s *Solver) AddAxiom(t *Term) {
	if s.axiomSet == nil {
		s.axiomSet = map[int]bool{}
	}
	if s.axiomSet[t.ID] {
		return
	}
	s.axiomSet[t.ID] = true
	s.axioms = append(s.axioms, t)
	if !s.dead {
		s.define(t)
		s.send("(assert " + s.ref(t) + ")")
	}
}

func solverArgv(kind string) []string {
	switch kind {
	case "z3-new":
		return []string{"z3-new", "-in"}
	case "cvc5":
		return []string{"cvc5", "--incremental", "--lang=smt2", "--produce-models"}
	default:
		return []string{"z3", "-in"}
	}
}

func NewSolver(c *Ctx, kind string, timeoutMs int) (*Solver, error) {
	s := &Solver{Ctx: c, Kind: kind, TimeoutMs: timeoutMs}
	if err := s.start(); err != nil {
		return nil, err
	}
	return s, nil
}

func (s *Solver) start() error {
	argv := solverArgv(s.Kind)
	s.cmd = exec.Command(argv[0], argv[1:]...)
	in, err := s.cmd.StdinPipe()
	if err != nil {
		return err
	}
	out, err := s.cmd.StdoutPipe()
	if err != nil {
		return err
	}
	s.cmd.Stderr = os.Stderr
	if err := s.cmd.Start(); err != nil {
		return err
	}
	s.in = in
	s.out = bufio.NewReaderSize(out, 1<<20)
	s.defined = nil
	s.declV = map[string]bool{}
	s.declF = map[string]bool{}
	s.dead = false
	s.curTimeout = s.TimeoutMs
	if s.Kind == "cvc5" {
		s.send("(set-logic ALL)")
		s.send(fmt.Sprintf("(set-option :tlimit-per %d)", s.TimeoutMs))
	} else {
		s.send("(set-option :produce-models true)")
		s.send(fmt.Sprintf("(set-option :timeout %d)", s.TimeoutMs))
	}
	for _, a := range s.axioms {
		s.define(a)
		s.send("(assert " + s.ref(a) + ")")
	}
	return nil
}

func (s *Solver) Close() {
	for _, f := range s.fb {
		f.Close()
	}
	s.fb = nil
	if s.cmd != nil && s.cmd.Process != nil {
		s.in.Close()
		s.cmd.Process.Kill()
		s.cmd.Wait()
	}
}

// Reset restarts the solver process (used between harnesses to drop accumulated definitions).
func (s *Solver) Reset(c *Ctx) error {
	s.Close()
	s.Ctx = c
	return s.start()
}

func (s *Solver) send(line string) {
	if s.Log != nil {
		fmt.Fprintln(s.Log, line)
	}
	io.WriteString(s.in, line)
	io.WriteString(s.in, "\n")
}

func bvLit(v uint64, w int) string {
	if w%4 == 0 {
		return fmt.Sprintf("#x%0*x", w/4, v)
	}
	return fmt.Sprintf("#b%0*b", w, v)
}

func symName(n string) string {
	simple := true
	for _, r := range n {
		if !(r >= 'a' && r <= 'z' || r >= 'A' && r <= 'Z' || r >= '0' && r <= '9' || r == '_' || r == '.' || r == '!') {
			simple = false
			break
		}
	}
	if simple && n != "" && !(n[0] >= '0' && n[0] <= '9') {
		return n
	}
	return "|" + strings.ReplaceAll(n, "|", "!") + "|"
}

func (s *Solver) ref(t *Term) string {
	switch t.Op {
	case OpConst:
		if t.S.IsBool() {
			if t.Val != 0 {
				return "true"
			}
			return "false"
		}
		return bvLit(t.Val, t.S.W)
	case OpVar:
		return symName(t.Name)
	}
	return "t" + strconv.Itoa(t.ID)
}

// define makes sure t and all its subterms are known to the solver.
func (s *Solver) define(t *Term) {
	if t.ID < len(s.defined) && s.defined[t.ID] {
		return
	}
	// iterative post-order
	type fr struct {
		t *Term
		i int
	}
	stack := []fr{{t, 0}}
	for len(stack) > 0 {
		top := &stack[len(stack)-1]
		if top.t.ID < len(s.defined) && s.defined[top.t.ID] {
			stack = stack[:len(stack)-1]
			continue
		}
		if top.i < len(top.t.Args) {
			a := top.t.Args[top.i]
			top.i++
			if !(a.ID < len(s.defined) && s.defined[a.ID]) {
				stack = append(stack, fr{a, 0})
			}
			continue
		}
		s.emit(top.t)
		for top.t.ID >= len(s.defined) {
			s.defined = append(s.defined, false)
		}
		s.defined[top.t.ID] = true
		stack = stack[:len(stack)-1]
	}
}

func (s *Solver) emit(t *Term) {
	switch t.Op {
	case OpConst:
		return
	case OpVar:
		if !s.declV[t.Name] {
			s.declV[t.Name] = true
			s.send(fmt.Sprintf("(declare-const %s %s)", symName(t.Name), t.S))
		}
		return
	}
	var sb strings.Builder
	if t.Op == OpConstArray {
		s.send(fmt.Sprintf("(define-fun t%d () %s ((as const %s) %s))", t.ID, t.S, t.S, s.ref(t.Args[0])))
		return
	}
	fmt.Fprintf(&sb, "(define-fun t%d () %s (", t.ID, t.S)
	switch t.Op {
	case OpApp:
		if !s.declF[t.Name] {
			s.declF[t.Name] = true
			d := s.Ctx.Funs[t.Name]
			var as []string
			for _, a := range d.Args {
				as = append(as, a.String())
			}
			s.send(fmt.Sprintf("(declare-fun %s (%s) %s)", symName(t.Name), strings.Join(as, " "), d.Ret))
		}
		sb.WriteString(symName(t.Name))
	case OpExtract:
		fmt.Fprintf(&sb, "(_ extract %d %d)", t.Hi, t.Lo)
	case OpZExt:
		fmt.Fprintf(&sb, "(_ zero_extend %d)", t.S.W-t.Args[0].S.W)
	case OpSExt:
		fmt.Fprintf(&sb, "(_ sign_extend %d)", t.S.W-t.Args[0].S.W)
	default:
		sb.WriteString(opNames[t.Op])
	}
	for _, a := range t.Args {
		sb.WriteString(" ")
		sb.WriteString(s.ref(a))
	}
	sb.WriteString("))")
	s.send(sb.String())
}

func (s *Solver) readLine() (string, error) {
	line, err := s.out.ReadString('\n')
	return strings.TrimSpace(line), err
}

// readSexp reads a balanced s-expression (possibly spanning lines).
func (s *Solver) readSexp() (string, error) {
	var sb strings.Builder
	depth := 0
	started := false
	for {
		line, err := s.out.ReadString('\n')
		if err != nil {
			return sb.String(), err
		}
		inBar := false
		for _, r := range line {
			if r == '|' {
				inBar = !inBar
			}
			if inBar {
				continue
			}
			if r == '(' {
				depth++
				started = true
			} else if r == ')' {
				depth--
			}
		}
		sb.WriteString(line)
		if started && depth <= 0 {
			return sb.String(), nil
		}
		if !started && strings.TrimSpace(line) != "" {
			return sb.String(), nil
		}
	}
}

// Check decides satisfiability of the conjunction of asserts. If sat and want != nil, values of the wanted
// terms are returned (by term id).
// Check decides the conjunction of asserts. A query the primary solver leaves undecided (unknown, timeout, death)
// is handed once to each fallback solver (cvc5 1.0, then z3 5.1.0; same definitions, same axioms, same timeout):
// the three bit-vector back ends fail on different kernels - e.g. a 36-bit urem by 2^31-1 inside a cipher step is
// unknown for z3 4.8.12 after 20 s and sat for cvc5 in 3 s. A verdict is only ever taken from one solver's answer;
// disagreement cannot arise here because the fallbacks are consulted only when the primary gave no answer.
func (s *Solver) Check(asserts []*Term, want []*Term) (Result, map[int]uint64) {
	tl0 := s.TooLarge
	r, m := s.check1(asserts, want)
	if r != Unknown || s.isFallback || NoFallback || s.TooLarge != tl0 {
		return r, m
	}
	for _, kind := range []string{"cvc5", "z3-new"} {
		if kind == s.Kind {
			continue
		}
		if s.fb == nil {
			s.fb = map[string]*Solver{}
		}
		f := s.fb[kind]
		if f == nil {
			var err error
			f, err = NewSolver(s.Ctx, kind, s.TimeoutMs)
			if err != nil {
				continue
			}
			f.isFallback = true
			s.fb[kind] = f
		}
		for _, a := range s.axioms {
			f.AddAxiom(a)
		}
		if s.curTimeout > 0 {
			f.SetTimeout(s.curTimeout)
		}
		t0 := time.Now()
		r2, m2 := f.check1(asserts, want)
		s.Time += time.Since(t0)
		f.TakeErrors()
		if r2 != Unknown {
			s.NFallback++
			s.NUnknown--
			if r2 == Sat {
				s.NSat++
			} else {
				s.NUnsat++
			}
			return r2, m2
		}
	}
	return r, m
}

// NoFallback disables the fallback solvers (SYMGO_NOFALLBACK=1).
var NoFallback = os.Getenv("SYMGO_NOFALLBACK") != ""

func (s *Solver) check1(asserts []*Term, want []*Term) (Result, map[int]uint64) {
	if s.dead {
		if err := s.start(); err != nil {
			s.Errors = append(s.Errors, "restart failed: "+err.Error())
			return Unknown, nil
		}
	}
	t0 := time.Now()
	defer func() { s.Time += time.Since(t0) }()
	s.Queries++
	nerr0 := len(s.Errors)
	// size guard: a query that would send more than MaxNewTerms not yet defined term nodes is not attempted
	// (whole-cipher disequalities over dozens of clocks: z3 does not come back and takes gigabytes)
	if n := s.countNew(append(append([]*Term{}, asserts...), want...), MaxNewTerms); n > MaxNewTerms {
		s.NUnknown++
		s.TooLarge++
		if os.Getenv("SYMGO_TRACE") != "" {
			fmt.Fprintf(os.Stderr, "   QUERY NOT ATTEMPTED: more than %d new term nodes (%d asserts, %d wanted values)\n", MaxNewTerms, len(asserts), len(want))
		}
		return Unknown, nil
	}
	// watchdog over definition and solving: z3's own timeout is not always honoured
	limit := s.curTimeout
	if limit <= 0 {
		limit = s.TimeoutMs
	}
	proc := s.cmd.Process
	wd := time.AfterFunc(time.Duration(limit)*time.Millisecond+15*time.Second, func() {
		if proc != nil {
			proc.Kill()
		}
	})
	defer wd.Stop()
	for _, a := range asserts {
		if a.IsConst() {
			if a.Val == 0 {
				s.NUnsat++
				return Unsat, nil
			}
			continue
		}
		s.define(a)
	}
	for _, w := range want {
		s.define(w)
	}
	s.send("(push 1)")
	for _, a := range asserts {
		if a.IsConst() {
			continue
		}
		s.send("(assert " + s.ref(a) + ")")
	}
	s.send("(check-sat)")
	res := Unknown
	for {
		line, err := s.readLine()
		if err != nil {
			s.Errors = append(s.Errors, "solver died: "+err.Error())
			s.dead = true
			s.Close()
			s.NUnknown++
			return Unknown, nil
		}
		if line == "" {
			continue
		}
		if strings.HasPrefix(line, "(error") {
			s.Errors = append(s.Errors, line)
			continue
		}
		switch line {
		case "sat":
			res = Sat
		case "unsat":
			res = Unsat
		case "unknown", "timeout":
			res = Unknown
		default:
			s.Errors = append(s.Errors, "unexpected solver output: "+line)
			continue
		}
		break
	}
	var model map[int]uint64
	if res == Sat && len(want) > 0 {
		model = map[int]uint64{}
		// ask in chunks
		for i := 0; i < len(want); i += 200 {
			j := i + 200
			if j > len(want) {
				j = len(want)
			}
			var sb strings.Builder
			sb.WriteString("(get-value (")
			for _, w := range want[i:j] {
				sb.WriteString(s.ref(w))
				sb.WriteString(" ")
			}
			sb.WriteString("))")
			s.send(sb.String())
			txt, err := s.readSexp()
			if err != nil {
				s.Errors = append(s.Errors, "solver died in get-value")
				s.dead = true
				break
			}
			if strings.Contains(txt, "(error") {
				s.Errors = append(s.Errors, strings.TrimSpace(txt))
				break
			}
			vals := parseValues(txt)
			if len(vals) != j-i {
				s.Errors = append(s.Errors, fmt.Sprintf("get-value: expected %d values, got %d: %s", j-i, len(vals), txt))
				break
			}
			for k, w := range want[i:j] {
				model[w.ID] = vals[k]
			}
		}
	}
	s.send("(pop 1)")
	switch res {
	case Sat:
		s.NSat++
	case Unsat:
		s.NUnsat++
	default:
		s.NUnknown++
	}
	if len(s.Errors) > nerr0 && res != Unknown {
		// any error output during this query makes the verdict untrustworthy
		switch res {
		case Sat:
			s.NSat--
		case Unsat:
			s.NUnsat--
		}
		s.NUnknown++
		return Unknown, nil
	}
	return res, model
}

// parseValues extracts the value literals from a get-value response "((name val) (name val) ...)".
func parseValues(txt string) []uint64 {
	var vals []uint64
	// tokenise: we look for pairs at depth 2; value is the last token of each pair
	depth := 0
	var cur []string
	tok := strings.Builder{}
	flush := func() {
		if tok.Len() > 0 {
			cur = append(cur, tok.String())
			tok.Reset()
		}
	}
	inBar := false
	for _, r := range txt {
		if r == '|' {
			inBar = !inBar
			tok.WriteRune(r)
			continue
		}
		if inBar {
			tok.WriteRune(r)
			continue
		}
		switch r {
		case '(':
			flush()
			depth++
			if depth == 2 {
				cur = nil
			}
		case ')':
			flush()
			if depth == 2 && len(cur) > 0 {
				vals = append(vals, parseLit(cur[len(cur)-1]))
			}
			depth--
		case ' ', '\n', '\t', '\r':
			flush()
		default:
			tok.WriteRune(r)
		}
	}
	return vals
}

func parseLit(s string) uint64 {
	switch {
	case s == "true":
		return 1
	case s == "false":
		return 0
	case strings.HasPrefix(s, "#x"):
		v, _ := strconv.ParseUint(s[2:], 16, 64)
		return v
	case strings.HasPrefix(s, "#b"):
		v, _ := strconv.ParseUint(s[2:], 2, 64)
		return v
	}
	return 0
}

// TakeErrors returns and clears accumulated error lines.
func (s *Solver) TakeErrors() []string {
	e := s.Errors
	s.Errors = nil
	return e
}
