package sym

import (
	"fmt"
	"os"
	"time"
	"go/constant"
	"go/token"
	"go/types"
	"sort"
	"strings"

	"golang.org/x/tools/go/ssa"

	"verif/engine/smt"
)

type Decision struct {
	Kind byte // 'B' branch, 'V' value, 'M' merged
	Val  uint64
}

// Report is one obligation outcome.
type Report struct {
	Kind    string // "assert", "panic", "vacuity", "unwind", "unsupported", "inconclusive", "hang"
	Label   string
	Site    string
	Status  string // proved | violated | inconclusive | reached
	Model   map[string]uint64
	Detail  string
	Harness string
}

type pathEnd struct{ reason string }

// Exec is the state of one run (one path, possibly with merged sub-paths) of one harness.
type Exec struct {
	C    *smt.Ctx
	S    *smt.Solver
	Prog *ssa.Program
	H    *HarnessCfg

	pc     []*T
	prefix []Decision
	pos    int
	trace  []Decision
	pending [][]Decision

	mergeDepth int
	logging    int
	undo       []undoRec
	lazyUndo   []lazyUndoRec
	onWrite    func(*Cell)

	nobj    int
	nfresh  int
	depth   int
	steps   int64
	globals map[*ssa.Global]*Obj
	pkgInit map[*ssa.Package]bool
	pools   map[*Cell][]Value // sync.Pool contents (per pool object), see inPoolGet
	inputs  []*T          // all symbolic input variables/applications created in this run, in order
	inputSet map[int]bool
	inputObjs map[string]*Obj

	reports []Report
	stats   *Stats
	funcsEntered map[string]bool

	// ghost counters
	allocBytes *T
	imprecise  []string
	cuts       map[string]int
	cutHit     string
	footprint  *Footprint
	blockVisits map[*ssa.BasicBlock]int
	tables     map[*Cell]string
	ufMap      map[string]string
	opaqueID   int
	errEOF, errUEOF Value
	assumeDepthOK bool
	inInit        int
	Shared        *Shared
	Sizes         types.Sizes
	reached       map[string]bool
	noteReach     []string
	snaps         []*Snapshot
	symReads      []*T
	univ          []*T
	consumed      map[*Cell]*T
	batch         []batched // implicit checks assumed but not yet discharged
	deadline      time.Time
	deadlineHit   bool
	lastDL        int64
}

type batched struct {
	cond        *T
	pcIdx       int
	label, site string
}

type Stats struct {
	Paths, Steps            int64
	FeasQueries, AssertQueries int64
	Proved, Violated, Inconclusive int64
	Merges, MergeFails      int64
	MaxPC                   int
}

type frame struct {
	fn         *ssa.Function
	env        map[ssa.Value]Value
	defers     []func()
	ex         *Exec
	mergedPhis map[*ssa.Phi]Value
	visits     map[*ssa.BasicBlock]int
}

type lazyUndoRec struct {
	c   *Cell
	old *LazyArr
}

func (ex *Exec) site(pos token.Pos, fn *ssa.Function) string {
	if !pos.IsValid() {
		if fn != nil {
			return fn.String()
		}
		return "?"
	}
	p := ex.Prog.Fset.Position(pos)
	f := p.Filename
	if i := strings.Index(f, "/repo/"); i >= 0 {
		f = f[i+6:]
	} else if i := strings.LastIndex(f, "/src/"); i >= 0 {
		f = f[i+5:]
	} else if i := strings.Index(f, "/pkg/mod/"); i >= 0 {
		f = f[i+9:]
	}
	return fmt.Sprintf("%s:%d", f, p.Line)
}

// ---------- path condition, queries ----------

func (ex *Exec) assume(c *T) {
	if c.IsConst() {
		if c.Val == 0 {
			panic(pathEnd{"assume false"})
		}
		return
	}
	ex.pc = append(ex.pc, c)
	if len(ex.pc) > ex.stats.MaxPC {
		ex.stats.MaxPC = len(ex.pc)
	}
}

func (ex *Exec) inNewTerritory() bool { return ex.pos >= len(ex.prefix) }

// expire ends the path (inconclusive) once its deadline has passed; called before every solver query.
func (ex *Exec) expire() {
	if ex.deadline.IsZero() || time.Now().Before(ex.deadline) {
		return
	}
	if !ex.deadlineHit {
		ex.deadlineHit = true
		ex.stats.Inconclusive++
		ex.report(Report{Kind: "inconclusive", Label: "per-path time limit exceeded (solver queries)", Status: "inconclusive"})
	}
	ex.batch = nil
	panic(pathEnd{"deadline"})
}

func (ex *Exec) sat(extra ...*T) smt.Result {
	ex.expire()
	ex.flush()
	as := make([]*T, 0, len(ex.pc)+len(extra))
	as = append(as, ex.pc...)
	as = append(as, extra...)
	ex.stats.FeasQueries++
	r, _ := ex.S.Check(as, nil)
	return r
}

func (ex *Exec) satModel(extra ...*T) (smt.Result, map[string]uint64) {
	ex.flush()
	return ex.satModelNoFlush(extra...)
}

// flush discharges the batched implicit checks with one query (and individually if that query is satisfiable).
func (ex *Exec) flush() {
	if len(ex.batch) == 0 {
		return
	}
	if !ex.deadline.IsZero() && time.Now().After(ex.deadline) {
		ex.batch = nil
		return
	}
	b := ex.batch
	ex.batch = nil
	soft := map[int]bool{}
	conj := ex.C.True
	for _, x := range b {
		soft[x.pcIdx] = true
		conj = ex.C.BAnd(conj, x.cond)
	}
	var as []*T
	for i, t := range ex.pc {
		if !soft[i] {
			as = append(as, t)
		}
	}
	ex.stats.AssertQueries++
	r, _ := ex.S.Check(append(append([]*T{}, as...), ex.C.BNot(conj)), nil)
	if r == smt.Unsat {
		ex.stats.Proved += int64(len(b))
		// proved conditions are implied by the rest of the path condition: drop them again to keep it small
		ex.pc = as
		return
	}
	// some check may fail (or the solver gave up): examine them one by one under the growing prefix
	for _, x := range b {
		var pre []*T
		for i, t := range ex.pc {
			if i < x.pcIdx {
				pre = append(pre, t)
			}
		}
		ex.stats.AssertQueries++
		save := ex.pc
		ex.pc = pre
		r, model := ex.satModelNoFlush(ex.C.BNot(x.cond))
		ex.pc = save
		switch r {
		case smt.Unsat:
			ex.stats.Proved++
		case smt.Sat:
			ex.stats.Violated++
			ex.report(Report{Kind: "panic", Label: x.label, Site: x.site, Status: "violated", Model: model})
		default:
			ex.stats.Inconclusive++
			ex.report(Report{Kind: "panic", Label: x.label, Site: x.site, Status: "inconclusive", Detail: strings.Join(ex.S.TakeErrors(), "; ")})
		}
	}
}

func (ex *Exec) satModelNoFlush(extra ...*T) (smt.Result, map[string]uint64) {
	if !ex.deadline.IsZero() && time.Now().After(ex.deadline) {
		return smt.Unknown, nil
	}
	as := make([]*T, 0, len(ex.pc)+len(extra))
	as = append(as, ex.pc...)
	as = append(as, extra...)
	var want []*T
	for _, t := range ex.inputs {
		if !t.IsConst() {
			want = append(want, t)
		}
	}
	// reads of symbolic-length inputs at symbolic positions: ask for position and value
	for _, t := range ex.symReads {
		want = append(want, t)
		if !t.Args[0].IsConst() {
			want = append(want, t.Args[0])
		}
	}
	if len(want) > 2000 {
		// a decoder that filled a maximum-size buffer has read tens of thousands of input octets that occur in no
		// constraint: any value satisfies them (the native replay reads absent inputs as 0), so only the values of
		// terms that occur in the query are asked for
		seen := map[int]bool{}
		var stack []*T
		stack = append(stack, as...)
		for len(stack) > 0 {
			t := stack[len(stack)-1]
			stack = stack[:len(stack)-1]
			if seen[t.ID] {
				continue
			}
			seen[t.ID] = true
			stack = append(stack, t.Args...)
		}
		kept := want[:0:0]
		for _, t := range want {
			if seen[t.ID] {
				kept = append(kept, t)
			}
		}
		want = kept
	}
	r, m := ex.S.Check(as, want)
	if r != smt.Sat {
		return r, nil
	}
	out := map[string]uint64{}
	for _, t := range ex.inputs {
		if t.IsConst() {
			continue
		}
		if v, ok := m[t.ID]; ok {
			out[ex.inputName(t)] = v
		}
	}
	for _, t := range ex.symReads {
		v, ok := m[t.ID]
		if !ok {
			continue
		}
		idx := t.Args[0]
		var iv uint64
		if idx.IsConst() {
			iv = idx.Val
		} else if x, ok := m[idx.ID]; ok {
			iv = x
		} else {
			continue
		}
		key := fmt.Sprintf("%s[%d]", t.Name, iv)
		if _, dup := out[key]; !dup && iv < 1<<20 {
			out[key] = v
		}
	}
	return r, out
}

func (ex *Exec) inputName(t *T) string {
	if t.Op == smt.OpVar {
		return t.Name
	}
	if t.Op == smt.OpApp && len(t.Args) == 1 && t.Args[0].IsConst() {
		return fmt.Sprintf("%s[%d]", t.Name, t.Args[0].Val)
	}
	return fmt.Sprintf("%s#%d", t.Name, t.ID)
}

func (ex *Exec) addInput(t *T) {
	if ex.inputSet[t.ID] {
		return
	}
	ex.inputSet[t.ID] = true
	ex.inputs = append(ex.inputs, t)
}

// check is an obligation: cond must hold on this path. Afterwards cond is assumed.
func (ex *Exec) check(cond *T, kind, label, site string) {
	if cond.IsConst() && cond.Val != 0 {
		if ex.inNewTerritory() {
			ex.stats.Proved++
		}
		return
	}
	if ex.inNewTerritory() {
		ex.stats.AssertQueries++
		if traceChecks {
			fmt.Fprintf(os.Stderr, "CHECK %s [%s]: %s\n", kind, label, cond.String())
			var walk func(t *T)
			nd := 0
			walk = func(t *T) {
				if nd > 3 {
					return
				}
				if t.Op == smt.OpBAnd {
					walk(t.Args[0])
					walk(t.Args[1])
					return
				}
				if t.Op == smt.OpEq {
					if x, y := smt.Diff(t.Args[0], t.Args[1]); x != nil {
						nd++
						fmt.Fprintf(os.Stderr, "   DIFF: %s\n     vs: %s\n", x.String(), y.String())
					}
				}
			}
			walk(cond)
		}
		r, model := ex.satModel(ex.C.BNot(cond))
		switch r {
		case smt.Unsat:
			ex.stats.Proved++
		case smt.Sat:
			ex.stats.Violated++
			ex.report(Report{Kind: kind, Label: label, Site: site, Status: "violated", Model: model})
			// can the path continue?
			if cond.IsConst() || ex.sat(cond) == smt.Unsat {
				panic(pathEnd{"violated: " + label})
			}
		default:
			ex.stats.Inconclusive++
			ex.report(Report{Kind: kind, Label: label, Site: site, Status: "inconclusive", Detail: strings.Join(ex.S.TakeErrors(), "; ")})
		}
	}
	ex.assume(cond)
}

func (ex *Exec) report(r Report) {
	r.Harness = ex.H.Name
	ex.reports = append(ex.reports, r)
}

// programPanic: the program panics unconditionally on this path.
func (ex *Exec) programPanic(what, site string) {
	if ex.mergeDepth > 0 {
		panic(mergeFail{"panic in arm: " + what})
	}
	if ex.inNewTerritory() {
		if !ex.H.ExpectPanic {
			r, model := ex.satModel()
			if r == smt.Sat {
				ex.stats.Violated++
				ex.report(Report{Kind: "panic", Label: what, Site: site, Status: "violated", Model: model})
			} else if r == smt.Unknown {
				ex.stats.Inconclusive++
				ex.report(Report{Kind: "panic", Label: what, Site: site, Status: "inconclusive"})
			}
		}
	}
	panic(pathEnd{"panic: " + what})
}

// safe states an implicit run-time check (index in range etc.).
func (ex *Exec) safe(cond *T, what, site string) {
	if cond.IsConst() {
		if cond.Val == 0 {
			ex.programPanic(what, site)
		}
		return
	}
	if ex.H.ExpectPanic {
		// harness tolerates panics: fork instead of reporting
		if !ex.branch(cond) {
			panic(pathEnd{"panic(expected): " + what})
		}
		return
	}
	if ex.mergeDepth == 0 && ex.inNewTerritory() {
		ex.batch = append(ex.batch, batched{cond: cond, pcIdx: len(ex.pc), label: what, site: site})
		ex.assume(cond)
		return
	}
	ex.check(cond, "panic", what, site)
}

// branch decides a symbolic condition, forking the exploration when both sides are feasible.
func (ex *Exec) branch(cond *T) bool {
	if cond.IsConst() {
		return cond.Val != 0
	}
	if ex.mergeDepth > 0 {
		panic(mergeFail{"fork inside merge arm"})
	}
	if ex.pos < len(ex.prefix) {
		d := ex.prefix[ex.pos]
		if d.Kind != 'B' {
			panic(fmt.Sprintf("symgo internal: decision kind mismatch at %d: want B got %c", ex.pos, d.Kind))
		}
		ex.pos++
		ex.trace = append(ex.trace, d)
		if d.Val == 1 {
			ex.assume(cond)
			return true
		}
		ex.assume(ex.C.BNot(cond))
		return false
	}
	rt := ex.sat(cond)
	var taken bool
	if rt == smt.Unsat {
		taken = false
	} else {
		rf := ex.sat(ex.C.BNot(cond))
		if rf == smt.Unsat {
			taken = true
		} else {
			taken = true
			alt := append(append([]Decision{}, ex.trace...), Decision{'B', 0})
			ex.pending = append(ex.pending, alt)
		}
		if rt == smt.Unknown || rf == smt.Unknown {
			ex.noteImprecise("feasibility unknown (kept)")
		}
	}
	d := Decision{'B', 0}
	if taken {
		d.Val = 1
	}
	ex.trace = append(ex.trace, d)
	ex.pos++
	ex.prefix = append(ex.prefix, d)
	if taken {
		ex.assume(cond)
	} else {
		ex.assume(ex.C.BNot(cond))
	}
	return taken
}

// concretize forks over all feasible values of t (at most cap of them).
func (ex *Exec) concretize(t *T, what string, cap int) uint64 {
	if v, ok := constOf(t); ok {
		return v
	}
	if ex.mergeDepth > 0 {
		panic(mergeFail{"concretize inside merge arm"})
	}
	if ex.pos < len(ex.prefix) {
		d := ex.prefix[ex.pos]
		if d.Kind != 'V' {
			panic(fmt.Sprintf("symgo internal: decision kind mismatch at %d: want V got %c", ex.pos, d.Kind))
		}
		ex.pos++
		ex.trace = append(ex.trace, d)
		ex.assume(ex.C.Eq(t, ex.C.Const(d.Val, t.W())))
		return d.Val
	}
	ex.expire()
	ex.flush()
	var vals []uint64
	var block []*T
	for len(vals) <= cap {
		ex.expire()
		as := append(append([]*T{}, ex.pc...), block...)
		ex.stats.FeasQueries++
		r, m := ex.S.Check(as, []*T{t})
		if r == smt.Unsat {
			break
		}
		if r == smt.Unknown {
			ex.report(Report{Kind: "inconclusive", Label: "concretize " + what + ": solver unknown", Status: "inconclusive"})
			ex.stats.Inconclusive++
			break
		}
		v := m[t.ID]
		vals = append(vals, v)
		block = append(block, ex.C.BNot(ex.C.Eq(t, ex.C.Const(v, t.W()))))
	}
	if len(vals) > cap {
		ex.report(Report{Kind: "inconclusive", Label: fmt.Sprintf("bound exceeded: more than %d values for %s", cap, what), Status: "inconclusive"})
		ex.stats.Inconclusive++
		vals = vals[:cap]
	}
	if len(vals) == 0 {
		panic(pathEnd{"infeasible at concretize"})
	}
	sort.Slice(vals, func(i, j int) bool { return vals[i] < vals[j] })
	for _, v := range vals[1:] {
		alt := append(append([]Decision{}, ex.trace...), Decision{'V', v})
		ex.pending = append(ex.pending, alt)
	}
	d := Decision{'V', vals[0]}
	ex.trace = append(ex.trace, d)
	ex.prefix = append(ex.prefix, d)
	ex.pos++
	ex.assume(ex.C.Eq(t, ex.C.Const(vals[0], t.W())))
	return vals[0]
}

func (ex *Exec) noteImprecise(s string) {
	for _, x := range ex.imprecise {
		if x == s {
			return
		}
	}
	ex.imprecise = append(ex.imprecise, s)
}

func (ex *Exec) fresh(prefix string, w int) *T {
	ex.nfresh++
	name := fmt.Sprintf("%s!%d", prefix, ex.nfresh)
	var t *T
	if w == 0 {
		t = ex.C.Var(name, smt.BoolSort)
	} else {
		t = ex.C.Var(name, smt.BV(w))
	}
	return t
}

// ---------- evaluation of SSA values ----------

func (fr *frame) get(v ssa.Value) Value {
	switch v := v.(type) {
	case *ssa.Const:
		return fr.ex.constValue(v)
	case *ssa.Global:
		return Ptr{Cell: fr.ex.globalObj(v).Root}
	case *ssa.Function:
		return Func{Fn: v}
	case *ssa.Builtin:
		return Func{Builtin: v}
	}
	if x, ok := fr.env[v]; ok {
		return x
	}
	panic(fmt.Sprintf("symgo internal: no value for %s (%T) in %s", v.Name(), v, fr.fn))
}

func (fr *frame) term(v ssa.Value) *T {
	x := fr.get(v)
	t, ok := x.(*T)
	if !ok {
		panic(unsupported(fmt.Sprintf("expected scalar for %s in %s, got %T", v.Name(), fr.fn, x)))
	}
	return t
}

func (ex *Exec) constValue(c *ssa.Const) Value {
	t := c.Type()
	if c.Value == nil {
		return ex.zero(t)
	}
	switch u := t.Underlying().(type) {
	case *types.Basic:
		info := u.Info()
		switch {
		case info&types.IsBoolean != 0:
			return ex.C.Bool(constant.BoolVal(c.Value))
		case info&types.IsString != 0:
			return ex.strConst(constant.StringVal(c.Value))
		case info&types.IsInteger != 0:
			w := ex.widthOf(t)
			if i, ok := constant.Int64Val(constant.ToInt(c.Value)); ok {
				return ex.C.Const(uint64(i), w)
			}
			if i, ok := constant.Uint64Val(constant.ToInt(c.Value)); ok {
				return ex.C.Const(i, w)
			}
			panic(unsupported("integer constant out of range"))
		case info&types.IsFloat != 0 || info&types.IsComplex != 0:
			f, _ := constant.Float64Val(c.Value)
			return Opaque{Kind: "float", Msg: fmt.Sprint(f)}
		}
	}
	panic(unsupported("constant of type " + t.String()))
}

func (ex *Exec) strConst(s string) Str {
	b := make([]*T, len(s))
	for i := 0; i < len(s); i++ {
		b[i] = ex.C.Const(uint64(s[i]), 8)
	}
	return Str{b}
}

func strConcrete(s Str) (string, bool) {
	b := make([]byte, len(s.B))
	for i, t := range s.B {
		if !t.IsConst() {
			return "", false
		}
		b[i] = byte(t.Val)
	}
	return string(b), true
}

// ---------- globals ----------

func (ex *Exec) globalObj(g *ssa.Global) *Obj {
	if o, ok := ex.globals[g]; ok {
		return o
	}
	et := g.Type().(*types.Pointer).Elem()
	o := ex.newObj(et, "global "+g.String())
	ex.globals[g] = o
	if v, ok := ex.globalIntrinsic(g); ok {
		ex.storeCellRaw(o.Root, v)
		return o
	}
	if g.Pkg != nil && ex.wantInit(g.Pkg) && !ex.pkgInit[g.Pkg] {
		ex.pkgInit[g.Pkg] = true
		ex.runInit(g.Pkg)
	}
	return o
}

func (ex *Exec) storeCellRaw(c *Cell, v Value) {
	save := ex.logging
	sw := ex.onWrite
	ex.logging = 0
	ex.onWrite = nil
	ex.storeCell(c, v)
	ex.logging = save
	ex.onWrite = sw
}

func (ex *Exec) wantInit(p *ssa.Package) bool {
	path := p.Pkg.Path()
	if strings.HasPrefix(path, "github.com/free5gc/nas") {
		return !strings.HasSuffix(path, "/logger")
	}
	switch path {
	case "encoding/hex", "strconv", "math/bits", "unicode/utf8", "strings", "bytes", "encoding/binary", "unicode":
		return true
	}
	return false
}

func (ex *Exec) runInit(p *ssa.Package) {
	init := p.Func("init")
	if init == nil || len(init.Blocks) == 0 {
		return
	}
	// run with logging/footprint disabled, concretely; nested init calls are skipped by call()
	sl, sw, sm, sd := ex.logging, ex.onWrite, ex.mergeDepth, ex.depth
	sa := ex.allocBytes // what a package initialiser allocates happens once per process, not per call: not counted
	ex.logging, ex.onWrite, ex.mergeDepth, ex.allocBytes = 0, nil, 0, nil
	ex.inInit++
	defer func() {
		ex.inInit--
		ex.logging, ex.onWrite, ex.mergeDepth, ex.depth = sl, sw, sm, sd
		ex.allocBytes = sa
	}()
	// mark the guard so init body runs
	fr := &frame{fn: init, env: map[ssa.Value]Value{}, ex: ex}
	fr.run(init.Blocks[0], nil, nil)
}

// ---------- calls ----------

const maxDepth = 3000

var traceChecks = os.Getenv("SYMGO_TRACE") != ""

func (ex *Exec) call(fn *ssa.Function, args []Value, site string) Value {
	name := fn.String()
	if ex.inInit > 0 && fn.Name() == "init" && fn.Signature.Recv() == nil && len(args) == 0 {
		// dependency init: handled lazily
		if fn.Pkg != nil && ex.wantInit(fn.Pkg) && !ex.pkgInit[fn.Pkg] {
			ex.pkgInit[fn.Pkg] = true
			fr := &frame{fn: fn, env: map[ssa.Value]Value{}, ex: ex}
			if len(fn.Blocks) > 0 {
				fr.run(fn.Blocks[0], nil, nil)
			}
		}
		return Tuple{}
	}
	if uf, ok := ex.H.UF[name]; ok {
		return ex.ufCall(fn, uf, args)
	}
	if us, ok := ex.H.UFSlice[name]; ok {
		return ex.ufSliceCall(fn, us, args, site)
	}
	if in, ok := intrinsics[name]; ok {
		return in(ex, fn, args, site)
	}
	if pi := prefixIntrinsic(name); pi != nil {
		return pi(ex, fn, args, site)
	}
	if len(fn.Blocks) == 0 {
		panic(unsupported("call of function without body: " + name))
	}
	if ex.funcsEntered != nil {
		ex.funcsEntered[name] = true
	}
	ex.depth++
	if ex.depth > maxDepth {
		panic(unsupported("call depth exceeded at " + name))
	}
	defer func() { ex.depth-- }()
	fr := &frame{fn: fn, env: make(map[ssa.Value]Value, 32), ex: ex}
	for i, p := range fn.Params {
		fr.env[p] = args[i]
	}
	res := fr.run(fn.Blocks[0], nil, nil)
	if res.kind != armReturn {
		panic("symgo internal: function run did not return")
	}
	return res.ret
}

func (ex *Exec) callClosure(f Func, args []Value, site string) Value {
	if f.Builtin != nil {
		panic(unsupported("builtin as value"))
	}
	if f.Fn == nil {
		ex.programPanic("call of nil func", site)
	}
	if len(f.Bind) == 0 {
		return ex.call(f.Fn, args, site)
	}
	fn := f.Fn
	ex.depth++
	defer func() { ex.depth-- }()
	fr := &frame{fn: fn, env: make(map[ssa.Value]Value, 32), ex: ex}
	for i, p := range fn.Params {
		fr.env[p] = args[i]
	}
	for i, fv := range fn.FreeVars {
		fr.env[fv] = f.Bind[i]
	}
	res := fr.run(fn.Blocks[0], nil, nil)
	return res.ret
}

// ---------- block execution with merging ----------

type armKind int

const (
	armReturn armKind = iota
	armJoin
)

type armResult struct {
	kind    armKind
	ret     Value
	pred    *ssa.BasicBlock           // predecessor from which stop was reached (nil if phiVals set)
	phiVals map[*ssa.Phi]Value        // merged phi values for the stop block
}

// run executes from block b (entered from pred) until the function returns or block `stop` is reached.
func (fr *frame) run(b, pred, stop *ssa.BasicBlock) armResult {
	ex := fr.ex
	var phiVals map[*ssa.Phi]Value
	for {
		if b == stop {
			return armResult{kind: armJoin, pred: pred, phiVals: phiVals}
		}
		if ex.steps-ex.lastDL > 2000 {
			ex.lastDL = ex.steps
		}
		if ex.lastDL == ex.steps && !ex.deadline.IsZero() && time.Now().After(ex.deadline) {
			if !ex.deadlineHit {
				ex.deadlineHit = true
				ex.stats.Inconclusive++
				ex.report(Report{Kind: "inconclusive", Label: "per-path time limit exceeded in " + fr.fn.String(), Status: "inconclusive"})
			}
			panic(pathEnd{"deadline"})
		}
		if lim := ex.H.Unwind; lim > 0 && ex.inInit == 0 {
			if fr.visits == nil {
				fr.visits = map[*ssa.BasicBlock]int{}
			}
			fr.visits[b]++
			if fr.visits[b] > lim {
				if ex.inNewTerritory() && ex.mergeDepth == 0 {
					// a loop still running after the unwinding limit: candidate non-termination, confirmed (or not) natively
					r, model := ex.satModel()
					if r == smt.Sat {
						ex.stats.Violated++
						ex.report(Report{Kind: "hang", Label: fmt.Sprintf("loop still running after %d iterations in %s", lim, fr.fn), Site: ex.site(fr.fn.Pos(), fr.fn), Status: "violated", Model: model})
					} else {
						ex.stats.Inconclusive++
						ex.report(Report{Kind: "unwind", Label: fmt.Sprintf("unwinding limit %d exceeded in %s block %d", lim, fr.fn, b.Index), Site: ex.site(fr.fn.Pos(), fr.fn), Status: "inconclusive"})
					}
				}
				panic(pathEnd{"unwind"})
			}
		}
		// cut points
		if len(ex.H.Cuts) > 0 && ex.mergeDepth == 0 {
			key := fr.fn.String() + "#" + b.Comment
			if k, ok := ex.H.Cuts[key]; ok {
				ex.cuts[key]++
				if ex.cuts[key] >= k {
					ex.cutHit = key
					panic(cutSignal{key})
				}
			}
		}
		// phis
		i := 0
		if len(b.Instrs) > 0 {
			if _, ok := b.Instrs[0].(*ssa.Phi); ok {
				var vals []Value
				var phis []*ssa.Phi
				for ; i < len(b.Instrs); i++ {
					phi, ok := b.Instrs[i].(*ssa.Phi)
					if !ok {
						break
					}
					phis = append(phis, phi)
					if phiVals != nil {
						vals = append(vals, phiVals[phi])
					} else {
						idx := -1
						for k, p := range b.Preds {
							if p == pred {
								idx = k
								break
							}
						}
						if idx < 0 {
							panic("symgo internal: pred not found for phi")
						}
						vals = append(vals, fr.get(phi.Edges[idx]))
					}
				}
				for k, phi := range phis {
					fr.env[phi] = vals[k]
				}
			}
		}
		phiVals = nil
		var next *ssa.BasicBlock
		for ; i < len(b.Instrs); i++ {
			ins := b.Instrs[i]
			ex.steps++
			switch ins := ins.(type) {
			case *ssa.Jump:
				next = b.Succs[0]
			case *ssa.Return:
				for k := len(fr.defers) - 1; k >= 0; k-- {
					// defers not run by RunDefers (none expected)
				}
				var ret Value
				switch len(ins.Results) {
				case 0:
					ret = Tuple{}
				case 1:
					ret = fr.get(ins.Results[0])
				default:
					tu := make(Tuple, len(ins.Results))
					for k, r := range ins.Results {
						tu[k] = fr.get(r)
					}
					ret = tu
				}
				return armResult{kind: armReturn, ret: ret}
			case *ssa.If:
				c := fr.term(ins.Cond)
				if c.IsConst() {
					if c.Val != 0 {
						next = b.Succs[0]
					} else {
						next = b.Succs[1]
					}
					break
				}
				res, nb, merged := fr.symbolicIf(b, c, stop)
				if merged {
					if res != nil {
						return *res
					}
					// merged at join nb with phi values already computed
					pred = nil
					phiVals = fr.mergedPhis
					fr.mergedPhis = nil
					next = nb
					b = nil
				} else {
					next = nb
				}
			case *ssa.Panic:
				v := fr.get(ins.X)
				msg := "explicit panic"
				if iv, ok := v.(Iface); ok {
					if s, ok := iv.V.(Str); ok {
						if cs, ok := strConcrete(s); ok {
							msg = "panic: " + cs
						}
					}
					if o, ok := iv.V.(Opaque); ok {
						msg = "panic: " + o.Msg
					}
				}
				ex.programPanic(msg, ex.site(ins.Pos(), fr.fn))
			default:
				fr.exec(ins)
			}
			if next != nil {
				break
			}
		}
		if next == nil {
			panic("symgo internal: block without terminator in " + fr.fn.String())
		}
		if b != nil {
			pred = b
		}
		b = next
	}
}

type cutSignal struct{ key string }

// symbolicIf handles an If on a symbolic condition in block b. It returns either a final arm result (merged
// return, or merged join at `stop`), or the next block to execute. merged tells whether phi values for nb
// were placed in fr.mergedPhis.
func (fr *frame) symbolicIf(b *ssa.BasicBlock, c *T, stop *ssa.BasicBlock) (*armResult, *ssa.BasicBlock, bool) {
	ex := fr.ex
	tryMerge := false
	inPrefix := ex.mergeDepth == 0 && ex.pos < len(ex.prefix)
	if inPrefix {
		tryMerge = ex.prefix[ex.pos].Kind == 'M'
	} else if !ex.H.NoMerge {
		tryMerge = ex.mergeCandidate(fr.fn, b)
	}
	if tryMerge {
		if inPrefix {
			ex.pos++
			ex.trace = append(ex.trace, Decision{Kind: 'M'})
		}
		res, nb, ok := fr.merge(b, c, stop)
		if ok {
			if !inPrefix && ex.mergeDepth == 0 {
				ex.trace = append(ex.trace, Decision{Kind: 'M'})
				ex.prefix = append(ex.prefix, Decision{Kind: 'M'})
				ex.pos++
			}
			ex.stats.Merges++
			return res, nb, true
		}
		if inPrefix {
			panic("symgo internal: recorded merge failed on replay")
		}
		ex.stats.MergeFails++
		if ex.mergeDepth > 0 {
			panic(mergeFail{"nested merge failed"})
		}
	}
	if ex.branch(c) {
		return nil, b.Succs[0], false
	}
	return nil, b.Succs[1], false
}

// merge executes both arms of the If ending block b and joins them.
func (fr *frame) merge(b *ssa.BasicBlock, c *T, stop *ssa.BasicBlock) (res *armResult, nb *ssa.BasicBlock, ok bool) {
	ex := fr.ex
	ex.flush()
	J := ex.ipdom(fr.fn, b) // may be nil (exit)
	type armOut struct {
		r      armResult
		phis   map[*ssa.Phi]Value
		writes map[*Cell]Value
		lazies map[*Cell]*LazyArr
		pcAdd  []*T
		alloc  *T
	}
	pc0 := len(ex.pc)
	rep0 := len(ex.reports)
	alloc0 := ex.allocBytes
	st0 := *ex.stats
	runArm := func(succ *ssa.BasicBlock, cond *T) (out armOut, ok bool) {
		u0, l0 := len(ex.undo), len(ex.lazyUndo)
		ex.logging++
		ex.mergeDepth++
		ex.pc = append(ex.pc, cond)
		defer func() {
			ex.logging--
			ex.mergeDepth--
			// collect writes and undo
			out.writes = map[*Cell]Value{}
			for i := u0; i < len(ex.undo); i++ {
				cell := ex.undo[i].c
				if _, seen := out.writes[cell]; !seen {
					out.writes[cell] = cell.V
				}
			}
			out.lazies = map[*Cell]*LazyArr{}
			for i := l0; i < len(ex.lazyUndo); i++ {
				cell := ex.lazyUndo[i].c
				if _, seen := out.lazies[cell]; !seen {
					out.lazies[cell] = cell.Lazy
				}
			}
			for i := len(ex.undo) - 1; i >= u0; i-- {
				ex.undo[i].c.V = ex.undo[i].old
			}
			ex.undo = ex.undo[:u0]
			for i := len(ex.lazyUndo) - 1; i >= l0; i-- {
				ex.lazyUndo[i].c.Lazy = ex.lazyUndo[i].old
			}
			ex.lazyUndo = ex.lazyUndo[:l0]
			out.pcAdd = append([]*T{}, ex.pc[pc0+1:]...)
			ex.pc = ex.pc[:pc0]
			out.alloc = ex.allocBytes
			ex.allocBytes = alloc0
			if r := recover(); r != nil {
				if _, isMF := r.(mergeFail); isMF {
					ok = false
					return
				}
				if _, isPE := r.(pathEnd); isPE {
					ok = false
					return
				}
				panic(r)
			}
		}()
		out.r = fr.run(succ, b, J)
		if out.r.kind == armJoin {
			out.phis = map[*ssa.Phi]Value{}
			for _, ins := range J.Instrs {
				phi, isPhi := ins.(*ssa.Phi)
				if !isPhi {
					break
				}
				out.phis[phi] = fr.phiInput(J, phi, out.r)
			}
		}
		return out, true
	}
	fail := func() (*armResult, *ssa.BasicBlock, bool) {
		ex.reports = ex.reports[:rep0]
		*ex.stats = st0
		return nil, nil, false
	}
	a, okA := runArm(b.Succs[0], c)
	if !okA {
		return fail()
	}
	// evaluate arm A's phi inputs now (env may be overwritten by arm B only for values defined in B, which A's edges cannot reference)
	bb, okB := runArm(b.Succs[1], ex.C.BNot(c))
	if !okB {
		return fail()
	}
	if a.r.kind != bb.r.kind {
		return fail()
	}
	// merge heap, registers
	merged := true
	var mergedRet Value
	var mergedPhis map[*ssa.Phi]Value
	func() {
		defer func() {
			if r := recover(); r != nil {
				if _, isMF := r.(mergeFail); isMF {
					merged = false
					return
				}
				panic(r)
			}
		}()
		if a.r.kind == armReturn {
			mergedRet = ex.iteValue(c, a.r.ret, bb.r.ret)
		} else {
			mergedPhis = map[*ssa.Phi]Value{}
			for _, ins := range J.Instrs {
				phi, isPhi := ins.(*ssa.Phi)
				if !isPhi {
					break
				}
				mergedPhis[phi] = ex.iteValue(c, a.phis[phi], bb.phis[phi])
			}
		}
		// heap
		cells := map[*Cell]bool{}
		for cell := range a.writes {
			cells[cell] = true
		}
		for cell := range bb.writes {
			cells[cell] = true
		}
		type upd struct {
			c *Cell
			v Value
		}
		var upds []upd
		for cell := range cells {
			va, inA := a.writes[cell]
			vb, inB := bb.writes[cell]
			if !inA {
				va = cell.V
			}
			if !inB {
				vb = cell.V
			}
			if sameValue(va, vb) {
				upds = append(upds, upd{cell, va})
			} else {
				upds = append(upds, upd{cell, ex.iteValue(c, va, vb)})
			}
		}
		if len(a.lazies) > 0 || len(bb.lazies) > 0 {
			panic(mergeFail{"bulk array write in arm"})
		}
		for _, u := range upds {
			ex.writeLeaf(u.c, u.v)
		}
	}()
	if !merged {
		return fail()
	}
	for _, t := range a.pcAdd {
		ex.assume(ex.C.Implies(c, t))
	}
	for _, t := range bb.pcAdd {
		ex.assume(ex.C.Implies(ex.C.BNot(c), t))
	}
	if a.alloc != alloc0 || bb.alloc != alloc0 {
		ex.allocBytes = ex.C.Ite(c, a.alloc, bb.alloc)
	}
	if a.r.kind == armReturn {
		return &armResult{kind: armReturn, ret: mergedRet}, nil, true
	}
	if J == stop {
		return &armResult{kind: armJoin, phiVals: mergedPhis}, nil, true
	}
	fr.mergedPhis = mergedPhis
	return nil, J, true
}

func (fr *frame) phiInput(J *ssa.BasicBlock, phi *ssa.Phi, r armResult) Value {
	if r.phiVals != nil {
		return r.phiVals[phi]
	}
	for k, p := range J.Preds {
		if p == r.pred {
			return fr.get(phi.Edges[k])
		}
	}
	panic("symgo internal: phiInput pred not found")
}
