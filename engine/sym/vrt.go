package sym

import (
	"fmt"
	"go/types"
	"strings"

	"golang.org/x/tools/go/ssa"

	"verif/engine/smt"
)

// HarnessCfg: per-harness settings (set by vrt directive calls at the start of the harness body).
type ufSliceSpec struct {
	sym    string
	lenArg int
}

type HarnessCfg struct {
	Name        string
	QueryTimeoutMs int
	UFSlice     map[string]ufSliceSpec
	Cuts        map[string]int
	UF          map[string]string
	Unwind      int
	NoMerge     bool
	ExpectPanic bool
	TrackAlloc  bool
	MaxPaths    int
}

func (ex *Exec) argStr(v Value) string {
	s, ok := v.(Str)
	if !ok {
		panic(unsupported("vrt: expected string argument"))
	}
	cs, ok := strConcrete(s)
	if !ok {
		panic(unsupported("vrt: expected constant string argument"))
	}
	return cs
}

func (ex *Exec) argInt(v Value) int {
	t, ok := v.(*T)
	if !ok || !t.IsConst() {
		panic(unsupported("vrt: expected constant integer argument"))
	}
	return int(int64(t.Val))
}

func (ex *Exec) inputVar(name string, w int) *T {
	var t *T
	if w == 0 {
		t = ex.C.Var(name, smt.BoolSort)
	} else {
		t = ex.C.Var(name, smt.BV(w))
	}
	ex.addInput(t)
	return t
}

func vrtIntrinsic(ex *Exec, fn *ssa.Function, args []Value, site string) Value {
	C := ex.C
	name := fn.Name()
	switch name {
	case "Bool":
		return ex.inputVar(ex.argStr(args[0]), 0)
	case "U8", "I8":
		return ex.inputVar(ex.argStr(args[0]), 8)
	case "U16", "I16":
		return ex.inputVar(ex.argStr(args[0]), 16)
	case "U32", "I32":
		return ex.inputVar(ex.argStr(args[0]), 32)
	case "U64", "I64", "Int":
		return ex.inputVar(ex.argStr(args[0]), 64)
	case "Bytes":
		nm := ex.argStr(args[0])
		n := ex.argInt(args[1])
		o := ex.newArrayObj(types.Typ[types.Uint8], n, "input "+nm)
		o.Input = true
		for i := 0; i < n; i++ {
			o.Root.Kids[i].V = ex.inputVar(fmt.Sprintf("%s[%d]", nm, i), 8)
		}
		ex.inputObjs[nm] = o
		k := ex.k64(int64(n))
		return Slice{Arr: o.Root, Off: ex.k64(0), Len: k, Cap: k}
	case "BytesSym":
		// symbolic-length byte string: length variable <name>.len <= max, contents UF <name>(i)
		nm := ex.argStr(args[0])
		mx := ex.argInt(args[1])
		ln := ex.inputVar(nm+".len", 64)
		ex.assume(C.AssumeRange(ln, int64(mx)))
		gen := func(idx *T) Value {
			a := C.App(nm, smt.BV(8), idx)
			if idx.IsConst() {
				ex.addInput(a)
			} else {
				ex.symReads = append(ex.symReads, a)
			}
			return a
		}
		o := ex.newLazyArrayObj(types.Typ[types.Uint8], ln, gen, "input "+nm)
		o.Input = true
		ex.inputObjs[nm] = o
		return Slice{Arr: o.Root, Off: ex.k64(0), Len: ln, Cap: ln}
	case "Str":
		nm := ex.argStr(args[0])
		n := ex.argInt(args[1])
		b := make([]*T, n)
		for i := range b {
			b[i] = ex.inputVar(fmt.Sprintf("%s[%d]", nm, i), 8)
		}
		return Str{b}
	case "MapFillRange": // MapFillRange(m, lo, hi, except): m[k] = true for lo <= k < hi, k != except (m must be empty)
		m := args[0].(*MapV)
		st := m.St.V.(MapState)
		if len(st.E) != 0 || st.Base != nil {
			panic(unsupported("MapFillRange on a non-empty map"))
		}
		ex.writeLeaf(m.St, MapState{Base: &MapBase{Lo: args[1].(*T), Hi: args[2].(*T), Except: args[3].(*T), Val: C.True}})
		return nil
	case "MapHas": // MapHas(m, k) bool  (ghost read)
		return ex.mapHas(args[0].(*MapV), args[1].(*T))
	case "Choose": // Choose(name, lo, hi) int: case split over lo..hi (each value explored as its own path)
		v := ex.inputVar(ex.argStr(args[0]), 64)
		lo, hi := ex.argInt(args[1]), ex.argInt(args[2])
		ex.assume(C.BAnd(C.Sle(ex.k64(int64(lo)), v), C.Sle(v, ex.k64(int64(hi)))))
		k := ex.concretize(v, "Choose "+ex.argStr(args[0]), hi-lo+1)
		return ex.k64(int64(k))
	case "Assume":
		c := args[0].(*T)
		if c.IsConst() && c.Val == 0 {
			panic(pathEnd{"assume false"})
		}
		if !c.IsConst() {
			ex.assume(c)
			if ex.inNewTerritory() {
				if ex.sat() == smt.Unsat {
					panic(pathEnd{"assumption infeasible"})
				}
			}
		}
		return Tuple{}
	case "Assert":
		ex.reach(ex.argStr(args[1]))
		ex.check(args[0].(*T), "assert", ex.argStr(args[1]), site)
		return Tuple{}
	case "Fail":
		ex.reach(ex.argStr(args[0]))
		ex.check(C.False, "assert", ex.argStr(args[0]), site)
		return Tuple{}
	case "Equal":
		label := ex.argStr(args[2])
		ex.reach(label)
		eq := ex.deepEq(unwrapAny(args[0]), unwrapAny(args[1]), map[[2]*Cell]bool{})
		ex.check(eq, "assert", label, site)
		return Tuple{}
	case "Same":
		return ex.deepEq(unwrapAny(args[0]), unwrapAny(args[1]), map[[2]*Cell]bool{})
	case "Reach":
		ex.reach(ex.argStr(args[0]))
		return Tuple{}
	case "CutAt":
		if ex.H.Cuts == nil {
			ex.H.Cuts = map[string]int{}
		}
		ex.H.Cuts[ex.argStr(args[0])+"#"+ex.argStr(args[1])] = ex.argInt(args[2])
		return Tuple{}
	case "Cut": // Cut(func() {...}) bool : runs f until a registered cut point is hit; reports whether it was
		f := args[0].(Func)
		hit := false
		func() {
			defer func() {
				if r := recover(); r != nil {
					if _, ok := r.(cutSignal); ok {
						hit = true
						return
					}
					panic(r)
				}
			}()
			ex.callClosure(f, nil, site)
		}()
		for k := range ex.cuts {
			delete(ex.cuts, k)
		}
		return C.Bool(hit)
	case "UF":
		if ex.H.UF == nil {
			ex.H.UF = map[string]string{}
		}
		ex.H.UF[ex.argStr(args[0])] = ex.argStr(args[1])
		return Tuple{}
	case "UFSlice": // UFSlice(fn, sym, lenArg): calls of fn return a fresh slice whose i-th element is SYM_i(scalar args)
		if ex.H.UFSlice == nil {
			ex.H.UFSlice = map[string]ufSliceSpec{}
		}
		ex.H.UFSlice[ex.argStr(args[0])] = ufSliceSpec{ex.argStr(args[1]), ex.argInt(args[2])}
		return Tuple{}
	case "QueryTimeout": // QueryTimeout(ms): per-query solver timeout for this harness (0 = default)
		ex.H.QueryTimeoutMs = ex.argInt(args[0])
		if ex.H.QueryTimeoutMs > 0 {
			ex.S.SetTimeout(ex.H.QueryTimeoutMs)
		} else {
			ex.S.SetTimeout(ex.S.TimeoutMs)
		}
		return Tuple{}
	case "Unwind":
		ex.H.Unwind = ex.argInt(args[0])
		return Tuple{}
	case "NoMerge":
		ex.H.NoMerge = true
		return Tuple{}
	case "Merge":
		ex.H.NoMerge = false
		return Tuple{}
	case "ExpectPanic":
		ex.H.ExpectPanic = true
		return Tuple{}
	case "NoPanicExpected":
		ex.H.ExpectPanic = false
		return Tuple{}
	case "MaxPaths":
		ex.H.MaxPaths = ex.argInt(args[0])
		return Tuple{}
	case "TrackAlloc":
		ex.allocBytes = ex.k64(0)
		return Tuple{}
	case "Allocated":
		if ex.allocBytes == nil {
			return ex.k64(0)
		}
		return ex.allocBytes
	case "Steps":
		return ex.k64(ex.steps)
	case "Snapshot": // Snapshot(x any) int: remembers a deep copy of everything reachable from x
		ex.snaps = append(ex.snaps, ex.snapshot(unwrapAny(args[0])))
		return ex.k64(int64(len(ex.snaps) - 1))
	case "Unchanged": // Unchanged(id int) bool
		return ex.unchanged(ex.snaps[ex.argInt(args[0])])
	case "Shares": // Shares(a, b any) bool: some object reachable from both
		return C.Bool(ex.shares(unwrapAny(args[0]), unwrapAny(args[1])))
	case "FootprintBegin":
		ex.footprintBegin()
		return Tuple{}
	case "FootprintEnd":
		ex.footprintEnd(ex.argStr(args[0]), site)
		return Tuple{}
	case "Owned":
		ex.footprintOwn(unwrapAny(args[0]))
		return Tuple{}
	case "ZoneDST2": // ZoneDST2(off int, dst bool, next int, hasNext bool): as ZoneDST, plus the offset in force after this rule ends (if it ends)
		ex.opaqueID++
		return Opaque{Kind: "loc", ID: ex.opaqueID, Data: map[string]Value{"off": args[0].(*T), "dst": args[1].(*T), "next": args[2].(*T), "hasNext": args[3].(*T)}}
	case "ZoneDST": // ZoneDST(offsetSeconds int, dst bool) *time.Location: a zone whose single rule has the given total offset and DST flag
		ex.opaqueID++
		return Opaque{Kind: "loc", ID: ex.opaqueID, Data: map[string]Value{"off": args[0].(*T), "dst": args[1].(*T)}}
	case "Panics": // Panics(f func()) bool: natively recover(); symbolically forks on every panic site
		f := args[0].(Func)
		save := ex.H.ExpectPanic
		ex.H.ExpectPanic = true
		panicked := false
		func() {
			defer func() {
				ex.H.ExpectPanic = save
				if r := recover(); r != nil {
					if pe, ok := r.(pathEnd); ok && strings.HasPrefix(pe.reason, "panic") {
						panicked = true
						return
					}
					panic(r)
				}
			}()
			ex.callClosure(f, nil, site)
		}()
		return C.Bool(panicked)
	}
	if len(fn.Blocks) > 0 {
		fr := &frame{fn: fn, env: make(map[ssa.Value]Value, 8), ex: ex}
		for i, p := range fn.Params {
			fr.env[p] = args[i]
		}
		return fr.run(fn.Blocks[0], nil, nil).ret
	}
	panic(unsupported("vrt function " + name))
}

func unwrapAny(v Value) Value {
	if i, ok := v.(Iface); ok {
		if i.T == nil {
			return nil
		}
		return i.V
	}
	return v
}

func (ex *Exec) reach(label string) {
	ex.reached[label] = true
}

// deepEq: structural equality. Pointers: both nil or pointees equal. Slices: nil == empty, same length and contents.
func (ex *Exec) deepEq(a, b Value, seen map[[2]*Cell]bool) *T {
	C := ex.C
	if a == nil || b == nil {
		return C.Bool(a == nil && b == nil)
	}
	switch av := a.(type) {
	case *T:
		bv, ok := b.(*T)
		if !ok || av.S != bv.S {
			return C.False
		}
		return C.Eq(av, bv)
	case Str:
		bv, ok := b.(Str)
		if !ok {
			return C.False
		}
		return ex.strEq(av, bv)
	case Ptr:
		bv, ok := b.(Ptr)
		if !ok {
			return C.False
		}
		if av.IsNil() || bv.IsNil() {
			return C.Bool(av.IsNil() && bv.IsNil())
		}
		if av.Cell == nil || bv.Cell == nil {
			return ex.deepEq(ex.load(av, "deepEq"), ex.load(bv, "deepEq"), seen)
		}
		if av.Cell == bv.Cell {
			return C.True
		}
		key := [2]*Cell{av.Cell, bv.Cell}
		if seen[key] {
			return C.True
		}
		seen[key] = true
		return ex.deepEqCells(av.Cell, bv.Cell, seen)
	case Slice:
		bv, ok := b.(Slice)
		if !ok {
			return C.False
		}
		lenEq := C.Eq(av.Len, bv.Len)
		if lenEq.IsConst() && lenEq.Val == 0 {
			return C.False
		}
		if av.Arr == nil || bv.Arr == nil {
			return lenEq
		}
		if av.Arr == bv.Arr && av.Off == bv.Off {
			return lenEq
		}
		if n, ok := constOf(av.Len); ok {
			r := lenEq
			for i := uint64(0); i < n; i++ {
				ii := ex.k64(int64(i))
				r = C.BAnd(r, ex.deepEq(ex.elem(av, ii, "deepEq"), ex.elem(bv, ii, "deepEq"), seen))
			}
			return r
		}
		if n, ok := constOf(bv.Len); ok {
			r := lenEq
			for i := uint64(0); i < n; i++ {
				ii := ex.k64(int64(i))
				r = C.BAnd(r, ex.deepEq(ex.elem(av, ii, "deepEq"), ex.elem(bv, ii, "deepEq"), seen))
			}
			return r
		}
		// both symbolic; if one side lives in a small concrete array, expand element-wise under guards
		bound := -1
		for _, sl := range []Slice{av, bv} {
			if sl.Arr.Lazy == nil {
				if o, ok := constOf(sl.Off); ok {
					if n := len(sl.Arr.Kids) - int(o); bound < 0 || n < bound {
						bound = n
					}
				}
			}
		}
		if bound >= 0 && bound <= 300 {
			r := C.BAnd(lenEq, C.Ule(av.Len, ex.k64(int64(bound))))
			for i := 0; i < bound; i++ {
				ii := ex.k64(int64(i))
				g := C.Ult(ii, av.Len)
				if g.IsConst() && g.Val == 0 {
					break
				}
				// guard the reads so that out-of-range positions are never touched
				var ea, eb Value
				ea = ex.readOrZero(av, ii)
				eb = ex.readOrZero(bv, ii)
				r = C.BAnd(r, C.Implies(g, ex.deepEq(ea, eb, seen)))
			}
			return r
		}
		// compare through a universally quantified index represented by a fresh symbol
		ex.nfresh++
		k := C.Var(fmt.Sprintf("eqidx!%d", ex.nfresh), smt.BV(64))
		ea := ex.elem(av, k, "deepEq")
		eb := ex.elem(bv, k, "deepEq")
		// equal iff lengths equal and for the arbitrary k < len elements agree. Using a fresh k makes the
		// assertion "for all k" when it is checked for validity (k is universally quantified by the negated query).
		ex.univ = append(ex.univ, k)
		return C.BAnd(lenEq, C.Implies(C.Ult(k, av.Len), ex.deepEq(ea, eb, seen)))
	case Struct:
		bv, ok := b.(Struct)
		if !ok || len(av.F) != len(bv.F) {
			return C.False
		}
		r := C.True
		for i := range av.F {
			r = C.BAnd(r, ex.deepEq(av.F[i], bv.F[i], seen))
		}
		return r
	case Array:
		bv, ok := b.(Array)
		if !ok || len(av.E) != len(bv.E) {
			return C.False
		}
		r := C.True
		for i := range av.E {
			r = C.BAnd(r, ex.deepEq(av.E[i], bv.E[i], seen))
		}
		return r
	case Tuple:
		bv, ok := b.(Tuple)
		if !ok || len(av) != len(bv) {
			return C.False
		}
		r := C.True
		for i := range av {
			r = C.BAnd(r, ex.deepEq(av[i], bv[i], seen))
		}
		return r
	case Iface:
		bv, ok := b.(Iface)
		if !ok {
			return C.False
		}
		if av.T == nil || bv.T == nil {
			return C.Bool(av.T == nil && bv.T == nil)
		}
		if !types.Identical(av.T, bv.T) {
			return C.False
		}
		return ex.deepEq(av.V, bv.V, seen)
	case *MapV:
		bv, ok := b.(*MapV)
		if !ok {
			return C.False
		}
		if av.Nil || bv.Nil {
			return C.Bool(av.Nil && bv.Nil)
		}
		panic(unsupported("deepEq on maps"))
	case Func:
		bv, ok := b.(Func)
		return C.Bool(ok && av.Fn == bv.Fn && av.Builtin == bv.Builtin)
	case Opaque:
		bv, ok := b.(Opaque)
		if !ok || av.Kind != bv.Kind {
			return C.False
		}
		if av.Kind == "error" {
			return C.True // errors compare by nil-ness only
		}
		if av.Kind == "time" {
			return ex.timeEq(av, bv)
		}
		return C.Bool(av.ID == bv.ID)
	}
	panic(unsupported(fmt.Sprintf("deepEq on %T", a)))
}

func (ex *Exec) deepEqCells(a, b *Cell, seen map[[2]*Cell]bool) *T {
	if a.Lazy != nil || b.Lazy != nil {
		panic(unsupported("deepEq on lazy array cell"))
	}
	if a.Agg != b.Agg || len(a.Kids) != len(b.Kids) {
		return ex.C.False
	}
	if !a.Agg {
		return ex.deepEq(a.V, b.V, seen)
	}
	r := ex.C.True
	for i := range a.Kids {
		r = ex.C.BAnd(r, ex.deepEqCells(a.Kids[i], b.Kids[i], seen))
	}
	return r
}

// ---------- snapshots, sharing ----------

type snapEntry struct {
	c *Cell
	v Value
	lazy *LazyArr
}

type Snapshot struct {
	entries []snapEntry
}

// reachCells collects all cells reachable from v (following pointers and slices).
func (ex *Exec) reachCells(v Value, seen map[*Cell]bool, arrs map[*Cell]bool) {
	switch x := v.(type) {
	case Ptr:
		if x.Cell != nil {
			ex.reachCell(x.Cell, seen, arrs)
		} else if x.Arr != nil {
			ex.reachCell(x.Arr, seen, arrs)
		}
	case Slice:
		if x.Arr != nil {
			ex.reachCell(x.Arr, seen, arrs)
		}
	case Struct:
		for _, f := range x.F {
			ex.reachCells(f, seen, arrs)
		}
	case Array:
		for _, f := range x.E {
			ex.reachCells(f, seen, arrs)
		}
	case Tuple:
		for _, f := range x {
			ex.reachCells(f, seen, arrs)
		}
	case Iface:
		if x.T != nil {
			ex.reachCells(x.V, seen, arrs)
		}
	case *MapV:
		if !x.Nil {
			ex.reachCell(x.St, seen, arrs)
		}
	}
}

func (ex *Exec) reachCell(c *Cell, seen map[*Cell]bool, arrs map[*Cell]bool) {
	if seen[c] {
		return
	}
	seen[c] = true
	if c.Lazy != nil {
		arrs[c] = true
		for _, k := range c.Lazy.Mat {
			ex.reachCell(k, seen, arrs)
		}
		return
	}
	if c.Agg {
		for _, k := range c.Kids {
			ex.reachCell(k, seen, arrs)
		}
		return
	}
	ex.reachCells(c.V, seen, arrs)
}

func (ex *Exec) snapshot(v Value) *Snapshot {
	seen := map[*Cell]bool{}
	arrs := map[*Cell]bool{}
	ex.reachCells(v, seen, arrs)
	s := &Snapshot{}
	for c := range seen {
		if c.Lazy != nil {
			s.entries = append(s.entries, snapEntry{c: c, lazy: c.Lazy})
		} else if !c.Agg {
			s.entries = append(s.entries, snapEntry{c: c, v: c.V})
		}
	}
	return s
}

func (ex *Exec) unchanged(s *Snapshot) *T {
	C := ex.C
	r := C.True
	for _, e := range s.entries {
		if e.lazy != nil {
			if e.c.Lazy != e.lazy || e.c.Lazy.Dirty {
				// conservatively: a bulk write or element write happened
				if e.c.Lazy != e.lazy {
					return C.False
				}
				for _, k := range e.c.Lazy.Mat {
					_ = k
				}
			}
			continue
		}
		if sameValue(e.c.V, e.v) {
			continue
		}
		switch ov := e.v.(type) {
		case *T:
			nv, ok := e.c.V.(*T)
			if !ok || nv.S != ov.S {
				return C.False
			}
			r = C.BAnd(r, C.Eq(ov, nv))
		case MapState:
			return C.False
		default:
			// pointer / slice / interface valued cell was rebound
			return C.False
		}
	}
	return r
}

// shares: is there an object reachable from both a and b?
func (ex *Exec) shares(a, b Value) bool {
	sa, sb := map[*Cell]bool{}, map[*Cell]bool{}
	ex.reachCells(a, sa, map[*Cell]bool{})
	ex.reachCells(b, sb, map[*Cell]bool{})
	objs := map[*Obj]bool{}
	for c := range sa {
		objs[c.Obj] = true
	}
	for c := range sb {
		if objs[c.Obj] {
			return true
		}
	}
	return false
}

// readOrZero reads element i of s without bounds obligations (used under an explicit guard).
func (ex *Exec) readOrZero(s Slice, i *T) Value {
	if s.Arr.Lazy != nil {
		return ex.loadIndexed(s.Arr, ex.C.Add(s.Off, i), "deepEq")
	}
	abs := ex.C.Add(s.Off, i)
	if k, ok := constOf(abs); ok {
		if k < uint64(len(s.Arr.Kids)) {
			return ex.loadCell(s.Arr.Kids[k])
		}
		return ex.zero(ex.elemType(s.Arr))
	}
	return ex.loadIndexed(s.Arr, abs, "deepEq")
}
