package sym

import (
	"fmt"
	"golang.org/x/tools/go/ssa"

	"verif/engine/smt"
)

// Abstract model of the parts of package time used by nasConvert/Time.go: a time value is a record of its
// calendar fields and zone offset. time.Date is the constructor for in-range fields (normalisation of
// out-of-range fields is not modelled: such a call makes the path inconclusive).

func (ex *Exec) timeField(o Opaque, k string) *T { return o.Data[k].(*T) }

func timeIntrinsic(ex *Exec, fn *ssa.Function, args []Value, site string) Value {
	C := ex.C
	switch fn.String() {
	case "time.FixedZone":
		ex.opaqueID++
		return Opaque{Kind: "loc", ID: ex.opaqueID, Data: map[string]Value{"off": args[1].(*T), "dst": C.False}}
	case "time.Date":
		y, mo, d := args[0].(*T), args[1].(*T), args[2].(*T)
		h, mi, s := args[3].(*T), args[4].(*T), args[5].(*T)
		off := ex.k64(0)
		dst := C.False
		var next, hasNext *T
		if l, ok := args[7].(Opaque); ok && l.Kind == "loc" {
			off = l.Data["off"].(*T)
			if x, ok := l.Data["dst"].(*T); ok {
				dst = x
			}
			if x, ok := l.Data["next"].(*T); ok {
				next, hasNext = x, l.Data["hasNext"].(*T)
			}
		}
		k := func(v int64) *T { return ex.k64(v) }
		rng := func(x *T, lo, hi int64) *T { return C.BAnd(C.Sle(k(lo), x), C.Sle(x, k(hi))) }
		inRange := C.BAnd(rng(mo, 1, 12), C.BAnd(rng(d, 1, 28), C.BAnd(rng(h, 0, 23), C.BAnd(rng(mi, 0, 59), C.BAnd(rng(s, 0, 59), rng(args[6].(*T), 0, 999999999))))))
		if !(inRange.IsConst() && inRange.Val != 0) {
			if ex.inNewTerritory() {
				if r := ex.sat(C.BNot(inRange)); r != smt.Unsat {
					ex.stats.Inconclusive++
					ex.report(Report{Kind: "inconclusive", Label: "time.Date with fields that may be out of range (normalisation / days 29-31 not modelled)", Site: site, Status: "inconclusive"})
				}
			}
			ex.assume(inRange)
		}
		ex.opaqueID++
		tv := Opaque{Kind: "time", ID: ex.opaqueID, Data: map[string]Value{"Y": y, "M": mo, "D": d, "h": h, "m": mi, "s": s, "off": off, "dst": dst}}
		if next != nil {
			tv.Data["next"], tv.Data["hasNext"] = next, hasNext
		}
		return tv
	}
	name := fn.Name()
	if len(args) > 0 {
		if t, ok := args[0].(Opaque); ok && t.Kind == "time" {
			switch name {
			case "Year":
				return ex.timeField(t, "Y")
			case "Month":
				return ex.timeField(t, "M")
			case "Day":
				return ex.timeField(t, "D")
			case "Hour":
				return ex.timeField(t, "h")
			case "Minute":
				return ex.timeField(t, "m")
			case "Second":
				return ex.timeField(t, "s")
			case "Nanosecond":
				return ex.k64(0)
			case "Zone":
				return Tuple{ex.strConst("zone"), ex.timeField(t, "off")}
			case "IsZero":
				if x, ok := t.Data["isZero"].(*T); ok {
					return x
				}
				return C.False
			case "ZoneBounds":
				// the rule in force at t: began before every instant considered (start: the zero time is NOT returned by
				// Go for a zone with a first transition, so start is an opaque instant), ends at an instant at which the
				// offset "next" is in force - or never (zero time)
				mk := func(off, isZero *T) Opaque {
					ex.opaqueID++
					f := func() *T { ex.nfresh++; return C.Var(fmt.Sprintf("zb!%d", ex.nfresh), smt.BV(64)) }
					return Opaque{Kind: "time", ID: ex.opaqueID, Data: map[string]Value{"Y": f(), "M": f(), "D": f(), "h": f(), "m": f(), "s": f(), "off": off, "dst": C.False, "isZero": isZero}}
				}
				if nx, ok := t.Data["next"].(*T); ok {
					return Tuple{mk(t.Data["off"].(*T), C.False), mk(nx, C.BNot(t.Data["hasNext"].(*T)))}
				}
				return Tuple{mk(t.Data["off"].(*T), C.True), mk(t.Data["off"].(*T), C.True)}
			case "IsDST":
				if x, ok := t.Data["dst"].(*T); ok {
					return x // zones built with vrt.ZoneDST carry their flag; fixed-offset zones are never DST
				}
				return C.False
			}
		}
	}
	panic(unsupported("time function " + fn.String()))
}

func (ex *Exec) timeEq(a, b Opaque) *T {
	r := ex.C.True
	for _, k := range []string{"Y", "M", "D", "h", "m", "s", "off"} {
		r = ex.C.BAnd(r, ex.C.Eq(a.Data[k].(*T), b.Data[k].(*T)))
	}
	return r
}
