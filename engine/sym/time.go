package sym

import (
	"golang.org/x/tools/go/ssa"
)

func timeIntrinsic(ex *Exec, fn *ssa.Function, args []Value, site string) Value {
	panic(unsupported("time function " + fn.String()))
}

func (ex *Exec) timeEq(a, b Opaque) *T { return ex.C.Bool(a.ID == b.ID) }
