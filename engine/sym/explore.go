package sym

import (
	"fmt"
	"go/types"
	"runtime/debug"
	"sort"
	"strings"
	"sync"
	"time"

	"golang.org/x/tools/go/ssa"

	"verif/engine/smt"
)

// Shared: read-mostly data shared by all workers.
type Shared struct {
	Prog  *ssa.Program
	Sizes types.Sizes
	mu    sync.Mutex
	cfg   map[*ssa.Function]*cfgInfo
}

func NewShared(prog *ssa.Program) *Shared {
	return &Shared{Prog: prog, Sizes: types.SizesFor("gc", "amd64"), cfg: map[*ssa.Function]*cfgInfo{}}
}

func (s *Shared) cfgGet(fn *ssa.Function) (*cfgInfo, bool) {
	s.mu.Lock()
	defer s.mu.Unlock()
	c, ok := s.cfg[fn]
	return c, ok
}

func (s *Shared) cfgPut(fn *ssa.Function, c *cfgInfo) {
	s.mu.Lock()
	defer s.mu.Unlock()
	if _, ok := s.cfg[fn]; !ok {
		s.cfg[fn] = c
	}
}

type Options struct {
	Solver      string
	TimeoutMs   int
	MaxPaths    int
	WallLimit   time.Duration
	LogSMT      string
	Debug       bool
}

type HarnessResult struct {
	Name       string
	Reports    []Report
	Stats      Stats
	Reached    map[string]bool
	Funcs      []string
	Imprecise  []string
	Completed  int64 // paths that ran the harness to its end
	Errors     []string
	WallS      float64
	SolverS    float64
	Queries    int
	SampleModel map[string]uint64
	Exhausted  bool // all paths explored within budget
}

// RunHarness explores all paths of the harness function.
func RunHarness(sh *Shared, fn *ssa.Function, opt Options) (res *HarnessResult) {
	t0 := time.Now()
	res = &HarnessResult{Name: fn.Name(), Reached: map[string]bool{}}
	C := smt.NewCtx()
	S, err := smt.NewSolver(C, opt.Solver, opt.TimeoutMs)
	if err != nil {
		res.Errors = append(res.Errors, "solver start: "+err.Error())
		return res
	}
	defer S.Close()
	defer func() {
		res.WallS = time.Since(t0).Seconds()
		res.SolverS = S.Time.Seconds()
		res.Queries = S.Queries
	}()
	funcs := map[string]bool{}
	work := [][]Decision{nil}
	seenRep := map[string]int{}
	maxPaths := opt.MaxPaths
	if maxPaths == 0 {
		maxPaths = 50000
	}
	res.Exhausted = true
	for len(work) > 0 {
		prefix := work[len(work)-1]
		work = work[:len(work)-1]
		if res.Stats.Paths >= int64(maxPaths) || (opt.WallLimit > 0 && time.Since(t0) > opt.WallLimit) {
			res.Exhausted = false
			res.Reports = append(res.Reports, Report{Kind: "inconclusive", Harness: fn.Name(), Status: "inconclusive",
				Label: fmt.Sprintf("exploration budget exceeded (%d paths, %.0fs); %d prefixes unexplored", res.Stats.Paths, time.Since(t0).Seconds(), len(work)+1)})
			res.Stats.Inconclusive++
			break
		}
		ex := &Exec{C: C, S: S, Prog: sh.Prog, Shared: sh, Sizes: sh.Sizes,
			H:      &HarnessCfg{Name: fn.Name()},
			prefix: prefix, globals: map[*ssa.Global]*Obj{}, pkgInit: map[*ssa.Package]bool{},
			inputSet: map[int]bool{}, inputObjs: map[string]*Obj{}, stats: &res.Stats, funcsEntered: funcs,
			cuts: map[string]int{}, reached: map[string]bool{}, tables: map[*Cell]string{}}
		completed, errs := ex.runPath(fn)
		res.Stats.Paths++
		res.Stats.Steps += ex.steps
		if completed {
			res.Completed++
			if res.SampleModel == nil && len(ex.inputs) > 0 && res.Completed == 1 {
				if r, m := ex.satModel(); r == smt.Sat {
					res.SampleModel = m
				}
			}
		}
		if ex.H.MaxPaths > 0 {
			maxPaths = ex.H.MaxPaths
		}
		for l := range ex.reached {
			res.Reached[l] = true
		}
		res.Errors = append(res.Errors, errs...)
		for _, im := range ex.imprecise {
			found := false
			for _, x := range res.Imprecise {
				if x == im {
					found = true
				}
			}
			if !found {
				res.Imprecise = append(res.Imprecise, im)
			}
		}
		for _, r := range ex.reports {
			key := r.Kind + "|" + r.Label + "|" + r.Site + "|" + r.Status
			seenRep[key]++
			if seenRep[key] == 1 {
				res.Reports = append(res.Reports, r)
			}
		}
		work = append(work, ex.pending...)
		if len(errs) > 0 && opt.Debug {
			break
		}
	}
	for f := range funcs {
		res.Funcs = append(res.Funcs, f)
	}
	sort.Strings(res.Funcs)
	if se := S.TakeErrors(); len(se) > 0 {
		if len(se) > 5 {
			se = se[:5]
		}
		res.Errors = append(res.Errors, "solver: "+strings.Join(se, " | "))
	}
	return res
}

// runPath executes the harness once along ex.prefix (and beyond). completed = the harness function returned.
func (ex *Exec) runPath(fn *ssa.Function) (completed bool, errs []string) {
	defer func() {
		if r := recover(); r != nil {
			switch e := r.(type) {
			case pathEnd:
				_ = e
			case cutSignal:
				errs = append(errs, "cut point reached outside vrt.Cut: "+e.key)
			case unsupportedErr:
				if ex.inNewTerritory() {
					ex.stats.Inconclusive++
					ex.report(Report{Kind: "unsupported", Label: e.msg, Status: "inconclusive"})
				}
			case mergeFail:
				errs = append(errs, "symgo internal: mergeFail escaped: "+e.why)
			default:
				errs = append(errs, fmt.Sprintf("symgo internal panic: %v\n%s", r, debug.Stack()))
			}
		}
	}()
	ex.call(fn, nil, "harness")
	return true, nil
}
