package sym

import (
	"fmt"
	"os"
	"go/types"
	"runtime/debug"
	"sort"
	"strings"
	"sync"
	"time"

	"golang.org/x/tools/go/ssa"

	"verif/engine/smt"
)

// Shared: read-mostly data shared by all workers.
type Shared struct {
	Prog  *ssa.Program
	Sizes types.Sizes
	mu    sync.Mutex
	cfg   map[*ssa.Function]*cfgInfo
}

func NewShared(prog *ssa.Program) *Shared {
	return &Shared{Prog: prog, Sizes: types.SizesFor("gc", "amd64"), cfg: map[*ssa.Function]*cfgInfo{}}
}

func (s *Shared) cfgGet(fn *ssa.Function) (*cfgInfo, bool) {
	s.mu.Lock()
	defer s.mu.Unlock()
	c, ok := s.cfg[fn]
	return c, ok
}

func (s *Shared) cfgPut(fn *ssa.Function, c *cfgInfo) {
	s.mu.Lock()
	defer s.mu.Unlock()
	if _, ok := s.cfg[fn]; !ok {
		s.cfg[fn] = c
	}
}

type Options struct {
	Solver      string
	TimeoutMs   int
	MaxPaths    int
	WallLimit   time.Duration
	LogSMT      string
	Debug       bool
	PathLimit   time.Duration
}

type HarnessResult struct {
	Name       string
	Reports    []Report
	Stats      Stats
	Reached    map[string]bool
	Funcs      []string
	Imprecise  []string
	Completed  int64 // paths that ran the harness to its end
	Errors     []string
	WallS      float64
	SolverS    float64
	Queries    int
	Fallback   int // queries the primary solver left undecided and a fallback solver decided
	SampleModel map[string]uint64
	Exhausted  bool // all paths explored within budget
}

// RunHarness explores all paths of one harness function (single worker).
func RunHarness(sh *Shared, fn *ssa.Function, opt Options) *HarnessResult {
	return RunAll(sh, []*ssa.Function{fn}, opt, 1, nil)[0]
}

type hstate struct {
	fn       *ssa.Function
	res      *HarnessResult
	queue    [][]Decision
	running  int
	started  time.Time
	begun    bool
	seenRep  map[string]int
	funcs    map[string]bool
	maxPaths int
	stopped  bool
}

type worker struct {
	cur *hstate
	C   *smt.Ctx
	S   *smt.Solver
	log *os.File
}

// RunAll explores every path of every harness with nworkers workers; paths (not only harnesses) are the unit of
// parallelism: each worker owns a term context and a solver process for the harness it currently works on.
func RunAll(sh *Shared, fns []*ssa.Function, opt Options, nworkers int, progress func(*HarnessResult)) []*HarnessResult {
	hs := make([]*hstate, len(fns))
	for i, fn := range fns {
		mp := opt.MaxPaths
		if mp == 0 {
			mp = 50000
		}
		hs[i] = &hstate{fn: fn, res: &HarnessResult{Name: fn.Name(), Reached: map[string]bool{}, Exhausted: true},
			queue: [][]Decision{nil}, seenRep: map[string]int{}, funcs: map[string]bool{}, maxPaths: mp}
	}
	var mu sync.Mutex
	cond := sync.NewCond(&mu)
	pick := func(w *worker) (*hstate, []Decision, bool) {
		// called with mu held; returns (nil,nil,false) when everything is finished
		for {
			var best *hstate
			anyRunning := false
			if w.cur != nil && len(w.cur.queue) > 0 && !w.cur.stopped {
				best = w.cur
			}
			for _, h := range hs {
				if h.running > 0 {
					anyRunning = true
				}
				if best != nil || h.stopped || len(h.queue) == 0 {
					continue
				}
			}
			if best == nil {
				// prefer harnesses nobody works on, then the one with the longest queue per running worker
				bestScore := -1.0
				for _, h := range hs {
					if h.stopped || len(h.queue) == 0 {
						continue
					}
					score := float64(len(h.queue)) / float64(h.running+1)
					if h.running == 0 {
						score += 1e6
					}
					if score > bestScore {
						best, bestScore = h, score
					}
				}
			}
			if best != nil {
				h := best
				if !h.begun {
					h.begun = true
					h.started = time.Now()
				}
				if h.res.Stats.Paths+int64(h.running) >= int64(h.maxPaths) || (opt.WallLimit > 0 && time.Since(h.started) > opt.WallLimit) {
					h.stopped = true
					h.res.Exhausted = false
					h.res.Reports = append(h.res.Reports, Report{Kind: "inconclusive", Harness: h.fn.Name(), Status: "inconclusive",
						Label: fmt.Sprintf("exploration budget exceeded (%d paths, %.0fs); %d prefixes unexplored", h.res.Stats.Paths, time.Since(h.started).Seconds(), len(h.queue))})
					h.res.Stats.Inconclusive++
					h.queue = nil
					continue
				}
				p := h.queue[len(h.queue)-1]
				h.queue = h.queue[:len(h.queue)-1]
				h.running++
				return h, p, true
			}
			if !anyRunning {
				return nil, nil, false
			}
			cond.Wait()
		}
	}
	var wg sync.WaitGroup
	for wi := 0; wi < nworkers; wi++ {
		wg.Add(1)
		go func() {
			defer wg.Done()
			w := &worker{}
			defer func() {
				if w.S != nil {
					w.S.Close()
				}
				if w.log != nil {
					w.log.Close()
				}
			}()
			for {
				mu.Lock()
				h, prefix, ok := pick(w)
				mu.Unlock()
				if !ok {
					cond.Broadcast()
					return
				}
				if w.cur != h || w.S == nil {
					if w.S != nil {
						w.S.Close()
						w.S = nil
					}
					if w.log != nil {
						w.log.Close()
						w.log = nil
					}
					w.cur = h
					w.C = smt.NewCtx()
					S, err := smt.NewSolver(w.C, opt.Solver, opt.TimeoutMs)
					if err != nil {
						mu.Lock()
						h.res.Errors = append(h.res.Errors, "solver start: "+err.Error())
						h.running--
						h.stopped = true
						mu.Unlock()
						cond.Broadcast()
						continue
					}
					w.S = S
					if lp := os.Getenv("SYMGO_SMTLOG"); lp != "" {
						if f, err := os.Create(fmt.Sprintf("%s.%s.%p.smt2", lp, h.fn.Name(), w)); err == nil {
							w.log = f
							S.Log = f
						}
					}
				}
				var st Stats
				funcs := map[string]bool{}
				q0, t0, fb0 := w.S.Queries, w.S.Time, w.S.NFallback
				ex := &Exec{C: w.C, S: w.S, Prog: sh.Prog, Shared: sh, Sizes: sh.Sizes,
					H:      &HarnessCfg{Name: h.fn.Name()},
					prefix: prefix, globals: map[*ssa.Global]*Obj{}, pkgInit: map[*ssa.Package]bool{},
					inputSet: map[int]bool{}, inputObjs: map[string]*Obj{}, stats: &st, funcsEntered: funcs,
					cuts: map[string]int{}, reached: map[string]bool{}, tables: map[*Cell]string{}}
				pt0 := time.Now()
				w.S.SetTimeout(w.S.TimeoutMs) // harness directives may lower it again
				if opt.PathLimit > 0 {
					ex.deadline = pt0.Add(opt.PathLimit)
				}
				if opt.WallLimit > 0 {
					if hl := h.started.Add(opt.WallLimit + 5*time.Second); ex.deadline.IsZero() || hl.Before(ex.deadline) {
						ex.deadline = hl
					}
				}
				completed, errs := ex.runPath(h.fn)
				var sample map[string]uint64
				mu.Lock()
				needSample := completed && h.res.SampleModel == nil && len(ex.inputs) > 0
				mu.Unlock()
				if needSample {
					if r, m := ex.satModel(); r == smt.Sat {
						sample = m
					}
				}
				solverErrs := w.S.TakeErrors()
				mu.Lock()
				res := h.res
				res.Stats.Paths++
				res.Stats.Steps += ex.steps
				res.Stats.FeasQueries += st.FeasQueries
				res.Stats.AssertQueries += st.AssertQueries
				res.Stats.Proved += st.Proved
				res.Stats.Violated += st.Violated
				res.Stats.Inconclusive += st.Inconclusive
				res.Stats.Merges += st.Merges
				res.Stats.MergeFails += st.MergeFails
				if st.MaxPC > res.Stats.MaxPC {
					res.Stats.MaxPC = st.MaxPC
				}
				res.Queries += w.S.Queries - q0
				res.Fallback += w.S.NFallback - fb0
				res.SolverS += (w.S.Time - t0).Seconds()
				res.WallS += time.Since(pt0).Seconds()
				if completed {
					res.Completed++
					if res.SampleModel == nil && sample != nil {
						res.SampleModel = sample
					}
				}
				if ex.H.MaxPaths > 0 {
					h.maxPaths = ex.H.MaxPaths
				}
				for l := range ex.reached {
					res.Reached[l] = true
				}
				for f := range funcs {
					h.funcs[f] = true
				}
				res.Errors = append(res.Errors, errs...)
				if len(solverErrs) > 0 && len(res.Errors) < 20 {
					if len(solverErrs) > 3 {
						solverErrs = solverErrs[:3]
					}
					res.Errors = append(res.Errors, "solver: "+strings.Join(solverErrs, " | "))
				}
				for _, im := range ex.imprecise {
					found := false
					for _, x := range res.Imprecise {
						if x == im {
							found = true
						}
					}
					if !found {
						res.Imprecise = append(res.Imprecise, im)
					}
				}
				for _, r := range ex.reports {
					key := r.Kind + "|" + r.Label + "|" + r.Site + "|" + r.Status
					h.seenRep[key]++
					if h.seenRep[key] == 1 {
						res.Reports = append(res.Reports, r)
					}
				}
				if !h.stopped {
					h.queue = append(h.queue, ex.pending...)
				}
				if len(errs) > 0 && opt.Debug {
					h.stopped = true
					h.queue = nil
				}
				h.running--
				finished := h.running == 0 && len(h.queue) == 0
				mu.Unlock()
				cond.Broadcast()
				if finished && progress != nil {
					progress(h.res)
				}
			}
		}()
	}
	wg.Wait()
	out := make([]*HarnessResult, len(hs))
	for i, h := range hs {
		for f := range h.funcs {
			h.res.Funcs = append(h.res.Funcs, f)
		}
		sort.Strings(h.res.Funcs)
		out[i] = h.res
	}
	return out
}

// runPath executes the harness once along ex.prefix (and beyond). completed = the harness function returned.
func (ex *Exec) runPath(fn *ssa.Function) (completed bool, errs []string) {
	defer func() {
		if r := recover(); r != nil {
			switch e := r.(type) {
			case pathEnd:
				_ = e
			case cutSignal:
				errs = append(errs, "cut point reached outside vrt.Cut: "+e.key)
			case unsupportedErr:
				if ex.inNewTerritory() {
					ex.stats.Inconclusive++
					ex.report(Report{Kind: "unsupported", Label: e.msg, Status: "inconclusive"})
				}
			case mergeFail:
				errs = append(errs, "symgo internal: mergeFail escaped: "+e.why)
			default:
				errs = append(errs, fmt.Sprintf("symgo internal panic: %v\n%s", r, debug.Stack()))
			}
		}
	}()
	defer func() {
		// discharge outstanding implicit checks of this path (also when the path ended early)
		if r := recover(); r != nil {
			ex.safeFlush()
			panic(r)
		}
		ex.safeFlush()
	}()
	ex.call(fn, nil, "harness")
	return true, nil
}

func (ex *Exec) safeFlush() {
	defer func() {
		if r := recover(); r != nil {
			ex.report(Report{Kind: "inconclusive", Label: fmt.Sprintf("flush failed: %v", r), Status: "inconclusive"})
			ex.stats.Inconclusive++
		}
	}()
	ex.flush()
}
