package sym

import (
	"golang.org/x/tools/go/ssa"
)

type cfgInfo struct {
	ipdom []int // block index -> immediate post-dominator block index, -1 = exit
	cand  map[int]bool
	candKnown map[int]bool
}

// cfgFor computes (and caches) post-dominator information for fn.
func (ex *Exec) cfgFor(fn *ssa.Function) *cfgInfo {
	if ci, ok := ex.Shared.cfgGet(fn); ok {
		return ci
	}
	n := len(fn.Blocks)
	// post-dominator sets as bitsets over n+1 nodes (n = virtual exit)
	words := (n + 1 + 63) / 64
	full := make([]uint64, words)
	for i := 0; i <= n; i++ {
		full[i/64] |= 1 << uint(i%64)
	}
	pd := make([][]uint64, n+1)
	for i := 0; i <= n; i++ {
		pd[i] = append([]uint64{}, full...)
	}
	pd[n] = make([]uint64, words)
	pd[n][n/64] |= 1 << uint(n%64)
	succs := func(i int) []int {
		b := fn.Blocks[i]
		if len(b.Succs) == 0 {
			return []int{n}
		}
		r := make([]int, len(b.Succs))
		for k, s := range b.Succs {
			r[k] = s.Index
		}
		return r
	}
	changed := true
	for changed {
		changed = false
		for i := n - 1; i >= 0; i-- {
			nw := append([]uint64{}, full...)
			for _, s := range succs(i) {
				for w := range nw {
					nw[w] &= pd[s][w]
				}
			}
			nw[i/64] |= 1 << uint(i%64)
			for w := range nw {
				if nw[w] != pd[i][w] {
					changed = true
				}
			}
			pd[i] = nw
		}
	}
	has := func(set []uint64, i int) bool { return set[i/64]&(1<<uint(i%64)) != 0 }
	count := func(set []uint64) int {
		c := 0
		for i := 0; i <= n; i++ {
			if has(set, i) {
				c++
			}
		}
		return c
	}
	ci := &cfgInfo{ipdom: make([]int, n), cand: map[int]bool{}, candKnown: map[int]bool{}}
	for i := 0; i < n; i++ {
		// ipdom = the strict post-dominator with the largest pd set (closest)
		best, bestCount := -1, -1
		for j := 0; j <= n; j++ {
			if j == i || !has(pd[i], j) {
				continue
			}
			c := count(pd[j])
			if c > bestCount {
				best, bestCount = j, c
			}
		}
		if best == n || best < 0 {
			ci.ipdom[i] = -1
		} else {
			ci.ipdom[i] = best
		}
	}
	ex.Shared.cfgPut(fn, ci)
	return ci
}

func (ex *Exec) ipdom(fn *ssa.Function, b *ssa.BasicBlock) *ssa.BasicBlock {
	ci := ex.cfgFor(fn)
	j := ci.ipdom[b.Index]
	if j < 0 {
		return nil
	}
	return fn.Blocks[j]
}

// mergeCandidate: static screening of an If block for state merging.
func (ex *Exec) mergeCandidate(fn *ssa.Function, b *ssa.BasicBlock) bool {
	ci := ex.cfgFor(fn)
	ex.Shared.mu.Lock()
	if ci.candKnown[b.Index] {
		r := ci.cand[b.Index]
		ex.Shared.mu.Unlock()
		return r
	}
	ex.Shared.mu.Unlock()
	j := ci.ipdom[b.Index]
	// region reachable from succs without passing j
	seen := map[int]bool{}
	var stack []int
	for _, s := range b.Succs {
		stack = append(stack, s.Index)
	}
	ok := true
	for len(stack) > 0 {
		x := stack[len(stack)-1]
		stack = stack[:len(stack)-1]
		if x == j || seen[x] {
			continue
		}
		if x == b.Index {
			ok = false // loop header
			break
		}
		seen[x] = true
		for _, s := range fn.Blocks[x].Succs {
			stack = append(stack, s.Index)
		}
	}
	limit := 200
	if j < 0 {
		limit = 24
	}
	if len(seen) > limit {
		ok = false
	}
	ex.Shared.mu.Lock()
	ci.candKnown[b.Index] = true
	ci.cand[b.Index] = ok
	ex.Shared.mu.Unlock()
	return ok
}
