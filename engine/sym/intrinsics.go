package sym

import (
	"fmt"
	"go/types"
	"strings"
	"unicode"
	"unicode/utf8"

	"golang.org/x/tools/go/ssa"

	"verif/engine/smt"
)

type intrinsic func(ex *Exec, fn *ssa.Function, args []Value, site string) Value

var intrinsics map[string]intrinsic

func init() {
	intrinsics = map[string]intrinsic{
		"bytes.NewBuffer":                  inNewBuffer,
		"bytes.NewReader":                  inNewReader,
		"(*bytes.Buffer).Len":              inBufLen,
		"(*bytes.Buffer).Bytes":            inBufBytes,
		"(*bytes.Buffer).String":           inBufString,
		"(*bytes.Buffer).Next":             inBufNext,
		"(*bytes.Buffer).Write":            inBufWrite,
		"(*bytes.Buffer).WriteByte":        inBufWriteByte,
		"(*bytes.Buffer).WriteString":      inBufWriteString,
		"(*bytes.Buffer).ReadByte":         inBufReadByte,
		"(*bytes.Buffer).Read":             inBufRead,
		"(*bytes.Buffer).ReadFrom":         inBufReadFrom,
		"(*bytes.Buffer).Reset":            inBufReset,
		"(*bytes.Reader).Read":             inBufRead,
		"(*bytes.Reader).Len":              inBufLen,
		"encoding/binary.Read":             inBinaryRead,
		"encoding/binary.Write":            inBinaryWrite,
		"fmt.Errorf":                       inErrorf,
		"errors.New":                       inErrorsNew,
		"fmt.Sprintf":                      inSprintf,
		"fmt.Sprint":                       inSprint,
		"fmt.Println":                      inNop,
		"fmt.Printf":                       inNop,
		"fmt.Print":                        inNop,
		"log.Printf":                       inNop,
		"log.Println":                      inNop,
		"reflect.DeepEqual":                inDeepEqual,
		"internal/stringslite.Clone":       inIdentity,
		"strings.Clone":                    inIdentity,
		"strconv.cloneString":              inIdentity,
		"internal/bytealg.IndexByteString": inIndexByteString,
		"internal/bytealg.IndexByte":       inIndexByte,
		"internal/bytealg.CountString":     inCountString,
		"internal/bytealg.Equal":           inBytesEqual,
		"bytes.Equal":                      inBytesEqual,
		"strings.Index":                    inStringsIndex,
		"strings.LastIndex":                inStringsLastIndex,
		"strings.IndexByte":                inIndexByteString,
		"strings.Contains":                 inStringsContains,
		"strings.Split":                    inStringsSplit,
		"strings.Join":                     inStringsJoin,
		"strings.Repeat":                   inStringsRepeat,
		"crypto/subtle.XORBytes":           inXORBytes,
		"github.com/aead/cmac.xor":         inCmacXor,
		"crypto/aes.NewCipher":             inAesNewCipher,
		"crypto/cipher.NewCTR":             inNewCTR,
		"runtime.KeepAlive":                inNop,
		"strings.ToLower":                  inStringsToLower,
		"strings.ToUpper":                  inStringsToUpper,
		"(*sync.Pool).Get":                 inPoolGet,
		"(*sync.Pool).Put":                 inPoolPut,
		// locks: the executor runs one goroutine, so acquiring and releasing are no-ops (what they protect is C19's subject:
		// the global-state scan reports the package-level state behind them)
		"(*sync.Mutex).Lock":      inNop,
		"(*sync.Mutex).Unlock":    inNop,
		"(*sync.RWMutex).Lock":    inNop,
		"(*sync.RWMutex).Unlock":  inNop,
		"(*sync.RWMutex).RLock":   inNop,
		"(*sync.RWMutex).RUnlock": inNop,
	}
}

func prefixIntrinsic(name string) intrinsic {
	switch {
	case strings.HasPrefix(name, "(*github.com/sirupsen/logrus.Entry)."),
		strings.HasPrefix(name, "(*github.com/sirupsen/logrus.Logger)."),
		strings.HasPrefix(name, "github.com/sirupsen/logrus."):
		return inLogNop
	case strings.HasPrefix(name, "github.com/free5gc/nas/zz_verifrt."):
		return vrtIntrinsic
	case strings.HasPrefix(name, "(time.Time).") || strings.HasPrefix(name, "time.") || strings.HasPrefix(name, "(*time.Time).") || strings.HasPrefix(name, "(*time.Location).") || strings.HasPrefix(name, "(time.Month)."):
		return timeIntrinsic
	}
	return nil
}

func inNop(ex *Exec, fn *ssa.Function, args []Value, site string) Value {
	return ex.zero(fn.Signature.Results())
}

func inLogNop(ex *Exec, fn *ssa.Function, args []Value, site string) Value {
	r := fn.Signature.Results()
	if r.Len() == 1 {
		return ex.zero(r.At(0).Type())
	}
	return ex.zero(r)
}

func inIdentity(ex *Exec, fn *ssa.Function, args []Value, site string) Value { return args[0] }

// ---------- errors ----------

var errType = types.NewNamed(types.NewTypeName(0, nil, "symgoError", nil), types.NewStruct(nil, nil), nil)
var opaqueType = types.NewNamed(types.NewTypeName(0, nil, "symgoOpaque", nil), types.NewStruct(nil, nil), nil)

func (ex *Exec) newError(msg string) Value {
	ex.opaqueID++
	return Iface{T: errType, V: Opaque{Kind: "error", Msg: msg, ID: 1000 + ex.opaqueID}}
}

func (ex *Exec) globalIntrinsic(g *ssa.Global) (Value, bool) {
	if g.Pkg == nil {
		return nil, false
	}
	switch g.Pkg.Pkg.Path() + "." + g.Name() {
	case "io.EOF":
		return Iface{T: errType, V: Opaque{Kind: "error", Msg: "EOF", ID: 1}}, true
	case "io.ErrUnexpectedEOF":
		return Iface{T: errType, V: Opaque{Kind: "error", Msg: "unexpected EOF", ID: 2}}, true
	case "io.ErrShortWrite":
		return Iface{T: errType, V: Opaque{Kind: "error", Msg: "short write", ID: 3}}, true
	case "encoding/hex.ErrLength":
		return Iface{T: errType, V: Opaque{Kind: "error", Msg: "encoding/hex: odd length hex string", ID: 4}}, true
	case "strconv.ErrSyntax":
		return Iface{T: errType, V: Opaque{Kind: "error", Msg: "invalid syntax", ID: 5}}, true
	case "strconv.ErrRange":
		return Iface{T: errType, V: Opaque{Kind: "error", Msg: "value out of range", ID: 6}}, true
	case "time.UTC", "time.Local":
		return Ptr{}, true
	}
	return nil, false
}

func (ex *Exec) errEOFv() Value {
	return Iface{T: errType, V: Opaque{Kind: "error", Msg: "EOF", ID: 1}}
}
func (ex *Exec) errUEOFv() Value {
	return Iface{T: errType, V: Opaque{Kind: "error", Msg: "unexpected EOF", ID: 2}}
}

func inErrorf(ex *Exec, fn *ssa.Function, args []Value, site string) Value {
	msg := "?"
	if s, ok := args[0].(Str); ok {
		if cs, ok := strConcrete(s); ok {
			msg = cs
		}
	}
	return ex.newError(msg)
}

func inErrorsNew(ex *Exec, fn *ssa.Function, args []Value, site string) Value {
	return inErrorf(ex, fn, args, site)
}

type ifaceIn func(ex *Exec, recv Iface, args []Value, site string) Value

func ifaceIntrinsic(recv Iface, method string) (ifaceIn, bool) {
	o, ok := recv.V.(Opaque)
	if !ok {
		return nil, false
	}
	switch o.Kind + "." + method {
	case "error.Error":
		return func(ex *Exec, recv Iface, args []Value, site string) Value {
			return ex.strConst(recv.V.(Opaque).Msg)
		}, true
	case "aesBlock.BlockSize":
		return func(ex *Exec, recv Iface, args []Value, site string) Value { return ex.k64(16) }, true
	case "aesBlock.Encrypt":
		return aesEncrypt, true
	case "ctr.XORKeyStream":
		return ctrXOR, true
	}
	return nil, false
}

// ---------- bytes.Buffer / bytes.Reader ----------

// Both types keep their data slice in field 0 and the read offset in field 1.
func bufParts(ex *Exec, p Value, site string) (bufCell, offCell *Cell) {
	pp, ok := p.(Ptr)
	if !ok || pp.IsNil() || pp.Cell == nil {
		ex.programPanic("nil *bytes.Buffer", site)
	}
	return pp.Cell.Kids[0], pp.Cell.Kids[1]
}

func inNewBuffer(ex *Exec, fn *ssa.Function, args []Value, site string) Value {
	bt := fn.Signature.Results().At(0).Type().(*types.Pointer).Elem()
	o := ex.newObj(bt, "bytes.NewBuffer@"+site)
	ex.accountAlloc(bt)
	o.Root.Kids[0].V = args[0]
	return Ptr{Cell: o.Root}
}

func inNewReader(ex *Exec, fn *ssa.Function, args []Value, site string) Value {
	return inNewBuffer(ex, fn, args, site)
}

func bufAvail(ex *Exec, bc, oc *Cell) (Slice, *T, *T) {
	buf := bc.V.(Slice)
	off := oc.V.(*T)
	return buf, off, ex.C.Sub(buf.Len, off)
}

func inBufLen(ex *Exec, fn *ssa.Function, args []Value, site string) Value {
	bc, oc := bufParts(ex, args[0], site)
	_, _, av := bufAvail(ex, bc, oc)
	return av
}

func inBufBytes(ex *Exec, fn *ssa.Function, args []Value, site string) Value {
	bc, oc := bufParts(ex, args[0], site)
	buf, off, av := bufAvail(ex, bc, oc)
	if buf.Arr == nil {
		return buf
	}
	return Slice{Arr: buf.Arr, Off: ex.C.Add(buf.Off, off), Len: av, Cap: ex.C.Sub(buf.Cap, off)}
}

func inBufString(ex *Exec, fn *ssa.Function, args []Value, site string) Value {
	if p, ok := args[0].(Ptr); ok && p.IsNil() {
		return ex.strConst("<nil>")
	}
	s := inBufBytes(ex, fn, args, site).(Slice)
	if s.Arr == nil {
		return Str{}
	}
	return Str{ex.sliceBytes(s, site)}
}

func inBufReset(ex *Exec, fn *ssa.Function, args []Value, site string) Value {
	bc, oc := bufParts(ex, args[0], site)
	buf := bc.V.(Slice)
	buf.Len = ex.k64(0)
	ex.writeLeaf(bc, buf)
	ex.writeLeaf(oc, ex.k64(0))
	return Tuple{}
}

func inBufNext(ex *Exec, fn *ssa.Function, args []Value, site string) Value {
	bc, oc := bufParts(ex, args[0], site)
	buf, off, av := bufAvail(ex, bc, oc)
	n := args[1].(*T)
	C := ex.C
	// m := b.Len(); if n > m { n = m }  (signed compare); data := b.buf[b.off : b.off+n]
	n = C.Ite(C.Slt(av, n), av, n)
	hi := C.Add(off, n)
	ex.safe(C.Ule(hi, buf.Cap), "slice bounds out of range (Buffer.Next)", site)
	ex.safe(C.Ule(off, hi), "slice bounds out of range (Buffer.Next)", site)
	ex.writeLeaf(oc, hi)
	if buf.Arr == nil {
		return buf
	}
	return Slice{Arr: buf.Arr, Off: C.Add(buf.Off, off), Len: n, Cap: C.Sub(buf.Cap, off)}
}

func (ex *Exec) bufAppend(bc *Cell, data Slice, site string) {
	buf := bc.V.(Slice)
	bt := types.NewSlice(types.Typ[types.Uint8])
	nb := ex.appendSlice(buf, data, bt, site).(Slice)
	ex.writeLeaf(bc, nb)
}

func inBufWrite(ex *Exec, fn *ssa.Function, args []Value, site string) Value {
	bc, _ := bufParts(ex, args[0], site)
	p := args[1].(Slice)
	ex.bufAppend(bc, p, site)
	return Tuple{p.Len, Iface{}}
}

func inBufWriteByte(ex *Exec, fn *ssa.Function, args []Value, site string) Value {
	bc, _ := bufParts(ex, args[0], site)
	ex.bufAppend(bc, ex.newByteSlice([]*T{args[1].(*T)}, "WriteByte"), site)
	return Iface{}
}

func inBufWriteString(ex *Exec, fn *ssa.Function, args []Value, site string) Value {
	bc, _ := bufParts(ex, args[0], site)
	s := args[1].(Str)
	ex.bufAppend(bc, ex.newByteSlice(s.B, "WriteString"), site)
	return Tuple{ex.k64(int64(len(s.B))), Iface{}}
}

func inBufReadByte(ex *Exec, fn *ssa.Function, args []Value, site string) Value {
	bc, oc := bufParts(ex, args[0], site)
	buf, off, av := bufAvail(ex, bc, oc)
	if !ex.branch(ex.C.Slt(ex.k64(0), av)) {
		inBufReset(ex, fn, args, site)
		return Tuple{ex.C.Const(0, 8), ex.errEOFv()}
	}
	v := ex.elem(buf, off, site)
	ex.writeLeaf(oc, ex.C.Add(off, ex.k64(1)))
	return Tuple{v, Iface{}}
}

func inBufRead(ex *Exec, fn *ssa.Function, args []Value, site string) Value {
	bc, oc := bufParts(ex, args[0], site)
	buf, off, av := bufAvail(ex, bc, oc)
	p := args[1].(Slice)
	C := ex.C
	if !ex.branch(C.Slt(ex.k64(0), av)) {
		if strings.Contains(fn.String(), "Buffer") {
			inBufReset(ex, fn, args, site)
		}
		if ex.branch(C.Eq(p.Len, ex.k64(0))) {
			return Tuple{ex.k64(0), Iface{}}
		}
		return Tuple{ex.k64(0), ex.errEOFv()}
	}
	n := ex.umin(p.Len, av)
	rd := ex.snapReader(Slice{Arr: buf.Arr, Off: C.Add(buf.Off, off), Len: n, Cap: n})
	if p.Arr != nil {
		ex.bulkWrite(p.Arr, p.Off, n, rd, site)
	}
	ex.writeLeaf(oc, C.Add(off, n))
	return Tuple{n, Iface{}}
}

func inBufReadFrom(ex *Exec, fn *ssa.Function, args []Value, site string) Value {
	// b.ReadFrom(r): only *bytes.Buffer / *bytes.Reader sources are supported: append everything unread.
	bc, _ := bufParts(ex, args[0], site)
	r := args[1].(Iface)
	if r.T == nil {
		ex.programPanic("nil reader in ReadFrom", site)
	}
	sc, so := bufParts(ex, r.V, site)
	sbuf, soff, sav := bufAvail(ex, sc, so)
	if sbuf.Arr != nil {
		ex.bufAppend(bc, Slice{Arr: sbuf.Arr, Off: ex.C.Add(sbuf.Off, soff), Len: sav, Cap: sav}, site)
	}
	// source drained: Buffer.Read resets when empty
	nb := sbuf
	nb.Len = ex.k64(0)
	ex.writeLeaf(sc, nb)
	ex.writeLeaf(so, ex.k64(0))
	return Tuple{sav, Iface{}}
}

// readFull models io.ReadFull(r, make([]byte, n)) for *bytes.Buffer / *bytes.Reader; returns a reader over the
// bytes and nil error, or an error value.
func (ex *Exec) readFull(r Iface, n *T, site string) (reader, Value) {
	C := ex.C
	if r.T == nil {
		ex.programPanic("nil io.Reader", site)
	}
	isBuffer := strings.HasSuffix(r.T.String(), "bytes.Buffer")
	bc, oc := bufParts(ex, r.V, site)
	buf, off, av := bufAvail(ex, bc, oc)
	if z, ok := constOf(n); ok && z == 0 {
		return func(*T) Value { return ex.C.Const(0, 8) }, Iface{}
	}
	if ex.branch(C.Ule(n, av)) {
		rd := ex.snapReader(Slice{Arr: buf.Arr, Off: C.Add(buf.Off, off), Len: n, Cap: n})
		ex.writeLeaf(oc, C.Add(off, n))
		if ex.consumed != nil {
			ex.noteConsumed(buf, C.Add(off, n))
		}
		return rd, Iface{}
	}
	// not enough data
	var err Value
	if ex.branch(C.Eq(av, ex.k64(0))) {
		err = ex.errEOFv()
	} else {
		err = ex.errUEOFv()
	}
	if isBuffer {
		nb := buf
		nb.Len = ex.k64(0)
		ex.writeLeaf(bc, nb)
		ex.writeLeaf(oc, ex.k64(0))
	} else {
		ex.writeLeaf(oc, buf.Len)
	}
	if ex.consumed != nil {
		ex.noteConsumed(buf, buf.Len)
	}
	return nil, err
}

// ---------- encoding/binary ----------

func orderName(v Value) string {
	if i, ok := v.(Iface); ok && i.T != nil {
		return i.T.String()
	}
	return ""
}

// fixedSize returns the encoded size of a fixed-size type, or -1.
func (ex *Exec) fixedSize(t types.Type) int {
	switch u := t.Underlying().(type) {
	case *types.Basic:
		w := ex.widthOf(t)
		if w == 0 {
			return 1
		}
		if w > 0 && u.Kind() != types.Int && u.Kind() != types.Uint && u.Kind() != types.Uintptr {
			return w / 8
		}
		return -1
	case *types.Array:
		e := ex.fixedSize(u.Elem())
		if e < 0 {
			return -1
		}
		return e * int(u.Len())
	case *types.Struct:
		s := 0
		for i := 0; i < u.NumFields(); i++ {
			e := ex.fixedSize(u.Field(i).Type())
			if e < 0 {
				return -1
			}
			s += e
		}
		return s
	}
	return -1
}

// decodeInto stores big-endian bytes from rd starting at *pos into cell c of fixed-size type.
func (ex *Exec) decodeInto(c *Cell, rd reader, pos *int64, little bool) {
	C := ex.C
	switch u := c.T.Underlying().(type) {
	case *types.Basic:
		w := ex.widthOf(c.T)
		if w == 0 {
			b := rd(ex.k64(*pos)).(*T)
			*pos++
			ex.storeCell(c, C.BNot(C.Eq(b, C.Const(0, 8))))
			return
		}
		n := w / 8
		var v *T
		for i := 0; i < n; i++ {
			b := rd(ex.k64(*pos + int64(i))).(*T)
			if v == nil {
				v = b
			} else if little {
				v = C.Concat(b, v)
			} else {
				v = C.Concat(v, b)
			}
		}
		*pos += int64(n)
		ex.storeCell(c, v)
	case *types.Array:
		for _, k := range c.Kids {
			ex.decodeInto(k, rd, pos, little)
		}
	case *types.Struct:
		for i, k := range c.Kids {
			if u.Field(i).Name() == "_" {
				*pos += int64(ex.fixedSize(u.Field(i).Type()))
				continue
			}
			ex.decodeInto(k, rd, pos, little)
		}
	default:
		panic(unsupported("binary decode into " + c.T.String()))
	}
}

func inBinaryRead(ex *Exec, fn *ssa.Function, args []Value, site string) Value {
	r := args[0].(Iface)
	little := strings.Contains(orderName(args[1]), "littleEndian")
	data := args[2].(Iface)
	if data.T == nil {
		return ex.newError("binary.Read: invalid type <nil>")
	}
	switch dt := data.T.Underlying().(type) {
	case *types.Pointer:
		size := ex.fixedSize(dt.Elem())
		if size < 0 {
			return ex.newError("binary.Read: invalid type " + data.T.String())
		}
		p := data.V.(Ptr)
		rd, err := ex.readFull(r, ex.k64(int64(size)), site)
		if rd == nil {
			return err
		}
		if size == 0 {
			return Iface{}
		}
		if p.IsNil() {
			ex.programPanic("binary.Read into nil pointer", site)
		}
		if p.Cell == nil {
			k := ex.concretize(p.Idx, "binary.Read target index", 256)
			p = Ptr{Cell: ex.kid(p.Arr, k)}
		}
		if ex.footprint != nil {
			ex.footprint.writeObj(p.Cell)
		}
		var pos int64
		ex.decodeInto(p.Cell, rd, &pos, little)
		return Iface{}
	case *types.Slice:
		es := ex.fixedSize(dt.Elem())
		if es < 0 {
			return ex.newError("binary.Read: invalid type " + data.T.String())
		}
		s := data.V.(Slice)
		if es == 1 && ex.widthOf(dt.Elem()) == 8 {
			rd, err := ex.readFull(r, s.Len, site)
			if rd == nil {
				return err
			}
			if s.Arr != nil {
				ex.bulkWrite(s.Arr, s.Off, s.Len, rd, site)
			}
			return Iface{}
		}
		n := ex.concretize(s.Len, "binary.Read slice length", 64)
		rd, err := ex.readFull(r, ex.k64(int64(n)*int64(es)), site)
		if rd == nil {
			return err
		}
		var pos int64
		for i := uint64(0); i < n; i++ {
			abs := ex.C.Add(s.Off, ex.k64(int64(i)))
			k := ex.concretize(abs, "binary.Read slice offset", 64)
			ex.decodeInto(ex.kid(s.Arr, k), rd, &pos, little)
		}
		return Iface{}
	}
	return ex.newError("binary.Read: invalid type " + data.T.String())
}

// encodeValue appends the big-endian encoding of v (of type t) to out.
func (ex *Exec) encodeValue(v Value, t types.Type, little bool, out *[]*T) bool {
	C := ex.C
	switch u := t.Underlying().(type) {
	case *types.Basic:
		w := ex.widthOf(t)
		if w == 0 {
			*out = append(*out, C.Ite(v.(*T), C.Const(1, 8), C.Const(0, 8)))
			return true
		}
		if w < 0 || u.Kind() == types.Int || u.Kind() == types.Uint || u.Kind() == types.Uintptr {
			return false
		}
		x := v.(*T)
		n := w / 8
		for i := 0; i < n; i++ {
			k := n - 1 - i
			if little {
				k = i
			}
			*out = append(*out, C.Extract(x, 8*k+7, 8*k))
		}
		return true
	case *types.Array:
		a := v.(Array)
		for _, e := range a.E {
			if !ex.encodeValue(e, u.Elem(), little, out) {
				return false
			}
		}
		return true
	case *types.Struct:
		s := v.(Struct)
		for i, f := range s.F {
			if u.Field(i).Name() == "_" {
				n := ex.fixedSize(u.Field(i).Type())
				for k := 0; k < n; k++ {
					*out = append(*out, C.Const(0, 8))
				}
				continue
			}
			if !ex.encodeValue(f, u.Field(i).Type(), little, out) {
				return false
			}
		}
		return true
	}
	return false
}

func inBinaryWrite(ex *Exec, fn *ssa.Function, args []Value, site string) Value {
	w := args[0].(Iface)
	little := strings.Contains(orderName(args[1]), "littleEndian")
	data := args[2].(Iface)
	if w.T == nil {
		ex.programPanic("nil io.Writer", site)
	}
	if !strings.HasSuffix(w.T.String(), "*bytes.Buffer") {
		panic(unsupported("binary.Write to " + w.T.String()))
	}
	bc, _ := bufParts(ex, w.V, site)
	if data.T == nil {
		return ex.newError("binary.Write: some values are not fixed-sized in type <nil>")
	}
	t := data.T
	v := data.V
	if pt, ok := t.Underlying().(*types.Pointer); ok {
		p := v.(Ptr)
		if p.IsNil() {
			ex.programPanic("binary.Write of nil pointer", site)
		}
		t = pt.Elem()
		v = ex.load(p, site)
	}
	if st, ok := t.Underlying().(*types.Slice); ok {
		s := v.(Slice)
		es := ex.fixedSize(st.Elem())
		if es < 0 {
			return ex.newError("binary.Write: some values are not fixed-sized in type " + t.String())
		}
		if es == 1 && ex.widthOf(st.Elem()) == 8 {
			if z, ok := constOf(s.Len); ok && z == 0 {
				return Iface{}
			}
			ex.bufAppend(bc, s, site)
			return Iface{}
		}
		n := ex.concretize(s.Len, "binary.Write slice length", 64)
		var out []*T
		for i := uint64(0); i < n; i++ {
			e := ex.elem(s, ex.k64(int64(i)), site)
			if !ex.encodeValue(e, st.Elem(), little, &out) {
				return ex.newError("binary.Write: unsupported element")
			}
		}
		if len(out) > 0 {
			ex.bufAppend(bc, ex.newByteSlice(out, "binary.Write"), site)
		}
		return Iface{}
	}
	var out []*T
	if !ex.encodeValue(v, t, little, &out) {
		return ex.newError("binary.Write: some values are not fixed-sized in type " + t.String())
	}
	if len(out) > 0 {
		ex.bufAppend(bc, ex.newByteSlice(out, "binary.Write"), site)
	}
	return Iface{}
}

// ---------- fmt.Sprintf ----------

func (ex *Exec) fmtUint(x *T, base uint64, minw int, zero bool) []*T {
	C := ex.C
	w := x.W()
	// number of digits: fork on thresholds
	nd := 1
	th := base
	for {
		if w < 64 && th > (uint64(1)<<uint(w))-1 {
			break
		}
		if !ex.branch(C.Ule(C.Const(th, w), x)) {
			break
		}
		nd++
		if th > (^uint64(0))/base {
			break
		}
		th *= base
	}
	digits := make([]*T, nd)
	cur := x
	for i := nd - 1; i >= 0; i-- {
		d := C.URem(cur, C.Const(base, w))
		cur = C.UDiv(cur, C.Const(base, w))
		d8 := C.Resize(d, 8, false)
		if base <= 10 {
			digits[i] = C.Add(d8, C.Const('0', 8))
		} else {
			digits[i] = C.Ite(C.Ult(d8, C.Const(10, 8)), C.Add(d8, C.Const('0', 8)), C.Add(d8, C.Const('a'-10, 8)))
		}
	}
	for len(digits) < minw {
		pad := byte(' ')
		if zero {
			pad = '0'
		}
		digits = append([]*T{C.Const(uint64(pad), 8)}, digits...)
	}
	return digits
}

func (ex *Exec) fmtArg(verb byte, minw int, zero bool, a Value) ([]*T, bool) {
	C := ex.C
	iv, ok := a.(Iface)
	if !ok {
		return nil, false
	}
	if iv.T == nil {
		return ex.strConst("<nil>").B, true
	}
	switch v := iv.V.(type) {
	case *T:
		if v.S.IsBool() {
			if ex.branch(v) {
				return ex.strConst("true").B, true
			}
			return ex.strConst("false").B, true
		}
		switch verb {
		case 'd', 'v':
			if isSigned(iv.T) {
				if ex.branch(C.Slt(v, C.Const(0, v.W()))) {
					d := ex.fmtUint(C.Neg(v), 10, minw-1, zero)
					return append([]*T{C.Const('-', 8)}, d...), true
				}
			}
			return ex.fmtUint(v, 10, minw, zero), true
		case 'x':
			return ex.fmtUint(v, 16, minw, zero), true
		case 'X':
			d := ex.fmtUint(v, 16, minw, zero)
			for i, t := range d {
				d[i] = C.Ite(C.Ule(C.Const('a', 8), t), C.Sub(t, C.Const(32, 8)), t)
			}
			return d, true
		case 'c':
			s := ex.runeToString(v, iv.T).(Str)
			return s.B, true
		}
	case Str:
		if verb == 's' || verb == 'v' {
			return v.B, true
		}
		if verb == 'x' {
			var out []*T
			for _, b := range v.B {
				out = append(out, ex.hexDigit(C.LShr(b, C.Const(4, 8))), ex.hexDigit(C.And(b, C.Const(15, 8))))
			}
			return out, true
		}
	case Opaque:
		if v.Kind == "error" {
			return ex.strConst(v.Msg).B, true
		}
	case Slice:
		if verb == 'x' {
			bs := ex.sliceBytes(v, "Sprintf")
			var out []*T
			for _, b := range bs {
				out = append(out, ex.hexDigit(C.LShr(b, C.Const(4, 8))), ex.hexDigit(C.And(b, C.Const(15, 8))))
			}
			return out, true
		}
	}
	return nil, false
}

func (ex *Exec) hexDigit(d *T) *T {
	C := ex.C
	return C.Ite(C.Ult(d, C.Const(10, 8)), C.Add(d, C.Const('0', 8)), C.Add(d, C.Const('a'-10, 8)))
}

func (ex *Exec) variadic(v Value, site string) []Value {
	s := v.(Slice)
	if s.Arr == nil {
		return nil
	}
	n := ex.concretize(s.Len, "varargs", 32)
	out := make([]Value, n)
	for i := uint64(0); i < n; i++ {
		out[i] = ex.elem(s, ex.k64(int64(i)), site)
	}
	return out
}

func inSprintf(ex *Exec, fn *ssa.Function, args []Value, site string) Value {
	f, ok := strConcrete(args[0].(Str))
	if !ok {
		panic(unsupported("Sprintf with symbolic format"))
	}
	va := ex.variadic(args[1], site)
	var out []*T
	ai := 0
	for i := 0; i < len(f); i++ {
		if f[i] != '%' {
			out = append(out, ex.C.Const(uint64(f[i]), 8))
			continue
		}
		i++
		if i >= len(f) {
			break
		}
		if f[i] == '%' {
			out = append(out, ex.C.Const('%', 8))
			continue
		}
		zero := false
		minw := 0
		for i < len(f) && (f[i] == '0' || f[i] == '+' || f[i] == '-' || f[i] == '#') {
			if f[i] == '0' {
				zero = true
			}
			i++
		}
		for i < len(f) && f[i] >= '0' && f[i] <= '9' {
			minw = minw*10 + int(f[i]-'0')
			i++
		}
		if i >= len(f) || ai >= len(va) {
			ex.noteImprecise("Sprintf: malformed format " + f)
			return Str{out}
		}
		d, ok := ex.fmtArg(f[i], minw, zero, va[ai])
		ai++
		if !ok {
			ex.noteImprecise("Sprintf: unmodelled verb in " + f)
			out = append(out, ex.C.Const('?', 8))
			continue
		}
		out = append(out, d...)
	}
	return Str{out}
}

func inSprint(ex *Exec, fn *ssa.Function, args []Value, site string) Value {
	va := ex.variadic(args[0], site)
	var out []*T
	for _, a := range va {
		d, ok := ex.fmtArg('v', 0, false, a)
		if !ok {
			ex.noteImprecise("Sprint: unmodelled operand")
			continue
		}
		out = append(out, d...)
	}
	return Str{out}
}

func inDeepEqual(ex *Exec, fn *ssa.Function, args []Value, site string) Value {
	return ex.deepEq(args[0], args[1], map[[2]*Cell]bool{})
}

// ---------- strings / bytealg ----------

func inIndexByteString(ex *Exec, fn *ssa.Function, args []Value, site string) Value {
	s := args[0].(Str)
	c := args[1].(*T)
	for i, b := range s.B {
		if ex.branch(ex.C.Eq(b, c)) {
			return ex.k64(int64(i))
		}
	}
	return ex.k64(-1)
}

func inIndexByte(ex *Exec, fn *ssa.Function, args []Value, site string) Value {
	s := args[0].(Slice)
	bs := ex.sliceBytes(s, site)
	return inIndexByteString(ex, fn, []Value{Str{bs}, args[1]}, site)
}

func inCountString(ex *Exec, fn *ssa.Function, args []Value, site string) Value {
	s := args[0].(Str)
	c := args[1].(*T)
	n := ex.k64(0)
	for _, b := range s.B {
		n = ex.C.Add(n, ex.C.Ite(ex.C.Eq(b, c), ex.k64(1), ex.k64(0)))
	}
	return n
}

func inBytesEqual(ex *Exec, fn *ssa.Function, args []Value, site string) Value {
	a, b := args[0].(Slice), args[1].(Slice)
	if !ex.branch(ex.C.Eq(a.Len, b.Len)) {
		return ex.C.False
	}
	ab := ex.sliceBytes(a, site)
	bb := ex.sliceBytes(b, site)
	return ex.strEq(Str{ab}, Str{bb})
}

func (ex *Exec) matchAt(s, sub Str, i int) *T {
	r := ex.C.True
	for j := range sub.B {
		r = ex.C.BAnd(r, ex.C.Eq(s.B[i+j], sub.B[j]))
	}
	return r
}

func inStringsIndex(ex *Exec, fn *ssa.Function, args []Value, site string) Value {
	s, sub := args[0].(Str), args[1].(Str)
	for i := 0; i+len(sub.B) <= len(s.B); i++ {
		if ex.branch(ex.matchAt(s, sub, i)) {
			return ex.k64(int64(i))
		}
	}
	return ex.k64(-1)
}

func inStringsLastIndex(ex *Exec, fn *ssa.Function, args []Value, site string) Value {
	s, sub := args[0].(Str), args[1].(Str)
	for i := len(s.B) - len(sub.B); i >= 0; i-- {
		if ex.branch(ex.matchAt(s, sub, i)) {
			return ex.k64(int64(i))
		}
	}
	return ex.k64(-1)
}

func inStringsContains(ex *Exec, fn *ssa.Function, args []Value, site string) Value {
	r := inStringsIndex(ex, fn, args, site).(*T)
	return ex.C.Bool(int64(r.Val) >= 0)
}

func (ex *Exec) newStrSlice(parts []Str, site string) Value {
	o := ex.newArrayObj(types.Typ[types.String], len(parts), site)
	for i, p := range parts {
		o.Root.Kids[i].V = p
	}
	n := ex.k64(int64(len(parts)))
	return Slice{Arr: o.Root, Off: ex.k64(0), Len: n, Cap: n}
}

func inStringsSplit(ex *Exec, fn *ssa.Function, args []Value, site string) Value {
	s, sep := args[0].(Str), args[1].(Str)
	if len(sep.B) == 0 {
		panic(unsupported("strings.Split with empty separator"))
	}
	var parts []Str
	start := 0
	i := 0
	for i+len(sep.B) <= len(s.B) {
		if ex.branch(ex.matchAt(s, sep, i)) {
			parts = append(parts, Str{s.B[start:i]})
			i += len(sep.B)
			start = i
		} else {
			i++
		}
	}
	parts = append(parts, Str{s.B[start:]})
	return ex.newStrSlice(parts, "strings.Split@"+site)
}

func inStringsJoin(ex *Exec, fn *ssa.Function, args []Value, site string) Value {
	el := ex.variadic(args[0], site)
	sep := args[1].(Str)
	var out []*T
	for i, e := range el {
		if i > 0 {
			out = append(out, sep.B...)
		}
		out = append(out, e.(Str).B...)
	}
	return Str{out}
}

func inStringsRepeat(ex *Exec, fn *ssa.Function, args []Value, site string) Value {
	s := args[0].(Str)
	n := ex.concretize(args[1].(*T), "strings.Repeat count", 64)
	if int64(n) < 0 {
		ex.programPanic("strings: negative Repeat count", site)
	}
	var out []*T
	for i := uint64(0); i < n; i++ {
		out = append(out, s.B...)
	}
	return Str{out}
}

// ---------- xor helpers ----------

func inXORBytes(ex *Exec, fn *ssa.Function, args []Value, site string) Value {
	dst, x, y := args[0].(Slice), args[1].(Slice), args[2].(Slice)
	n := ex.umin(x.Len, y.Len)
	k := ex.concretize(n, "XORBytes length", 4096)
	if k == 0 {
		return ex.k64(0)
	}
	ex.safe(ex.C.Ule(ex.k64(int64(k)), dst.Len), "subtle.XORBytes: dst too short", site)
	xs := ex.snapReader(x)
	ys := ex.snapReader(y)
	ex.bulkWrite(dst.Arr, dst.Off, ex.k64(int64(k)), func(i *T) Value {
		return ex.C.Xor(xs(i).(*T), ys(i).(*T))
	}, site)
	return ex.k64(int64(k))
}

// github.com/aead/cmac.xor(dst, src []byte): dst[i] ^= src[i] for i < min(len)
func inCmacXor(ex *Exec, fn *ssa.Function, args []Value, site string) Value {
	dst, src := args[0].(Slice), args[1].(Slice)
	n := ex.umin(dst.Len, src.Len)
	k := ex.concretize(n, "cmac.xor length", 4096)
	if k == 0 {
		return Tuple{}
	}
	ds := ex.snapReader(dst)
	ss := ex.snapReader(src)
	ex.bulkWrite(dst.Arr, dst.Off, ex.k64(int64(k)), func(i *T) Value {
		return ex.C.Xor(ds(i).(*T), ss(i).(*T))
	}, site)
	return Tuple{}
}

// ---------- AES as an uninterpreted function ----------

func inAesNewCipher(ex *Exec, fn *ssa.Function, args []Value, site string) Value {
	key := args[0].(Slice)
	n := ex.concretize(key.Len, "aes key length", 64)
	if n != 16 && n != 24 && n != 32 {
		return Tuple{Iface{}, ex.newError("crypto/aes: invalid key size")}
	}
	kb := ex.sliceBytes(key, site)
	kv := make([]Value, len(kb))
	for i, b := range kb {
		kv[i] = b
	}
	ex.opaqueID++
	return Tuple{Iface{T: opaqueType, V: Opaque{Kind: "aesBlock", ID: ex.opaqueID, Data: map[string]Value{"key": Array{kv}}}}, Iface{}}
}

func (ex *Exec) aesBlock(key Array, in []*T) []*T {
	// AES as an uninterpreted function of the key and the block, each packed into 64-bit words
	pack := func(bs []*T) []*T {
		var out []*T
		for i := 0; i+8 <= len(bs); i += 8 {
			w := bs[i]
			for j := 1; j < 8; j++ {
				w = ex.C.Concat(w, bs[i+j])
			}
			out = append(out, w)
		}
		return out
	}
	kb := make([]*T, len(key.E))
	for i, k := range key.E {
		kb[i] = k.(*T)
	}
	args := append(pack(kb), pack(in)...)
	out := make([]*T, 16)
	for i := range out {
		out[i] = ex.C.App(fmt.Sprintf("AES%d_%d", len(key.E)*8, i), smt.BV(8), args...)
	}
	return out
}

func aesEncrypt(ex *Exec, recv Iface, args []Value, site string) Value {
	o := recv.V.(Opaque)
	dst, src := args[0].(Slice), args[1].(Slice)
	ex.safe(ex.C.Ule(ex.k64(16), src.Len), "crypto/aes: input not full block", site)
	ex.safe(ex.C.Ule(ex.k64(16), dst.Len), "crypto/aes: output not full block", site)
	rs := ex.snapReader(src)
	in := make([]*T, 16)
	for i := range in {
		in[i] = rs(ex.k64(int64(i))).(*T)
	}
	out := ex.aesBlock(o.Data["key"].(Array), in)
	ex.bulkWrite(dst.Arr, dst.Off, ex.k64(16), func(i *T) Value {
		vs := make([]Value, 16)
		for k := range vs {
			vs[k] = out[k]
		}
		return ex.selectValues(vs, i)
	}, site)
	return Tuple{}
}

func inNewCTR(ex *Exec, fn *ssa.Function, args []Value, site string) Value {
	blk := args[0].(Iface)
	iv := args[1].(Slice)
	if blk.T == nil {
		ex.programPanic("cipher.NewCTR: nil block", site)
	}
	n := ex.concretize(iv.Len, "CTR iv length", 64)
	if n != 16 {
		ex.programPanic("cipher.NewCTR: IV length must equal block size", site)
	}
	ivb := ex.sliceBytes(iv, site)
	st := ex.newArrayObj(types.Typ[types.Uint8], 16, "ctr-state")
	for i, b := range ivb {
		st.Root.Kids[i].V = b
	}
	used := ex.newObj(types.Typ[types.Int], "ctr-used") // bytes of current keystream block already used
	ks := ex.newArrayObj(types.Typ[types.Uint8], 16, "ctr-ks")
	ex.storeCellRaw(used.Root, ex.k64(16))
	ex.opaqueID++
	return Iface{T: opaqueType, V: Opaque{Kind: "ctr", ID: ex.opaqueID, Data: map[string]Value{
		"block": blk, "ctr": Ptr{Cell: st.Root}, "used": Ptr{Cell: used.Root}, "ks": Ptr{Cell: ks.Root}}}}
}

func ctrXOR(ex *Exec, recv Iface, args []Value, site string) Value {
	C := ex.C
	o := recv.V.(Opaque)
	dst, src := args[0].(Slice), args[1].(Slice)
	n := ex.concretize(src.Len, "XORKeyStream length", 4096)
	if n == 0 {
		return Tuple{}
	}
	ex.safe(C.Ule(ex.k64(int64(n)), dst.Len), "crypto/cipher: output smaller than input", site)
	key := o.Data["block"].(Iface).V.(Opaque).Data["key"].(Array)
	ctr := o.Data["ctr"].(Ptr).Cell
	usedC := o.Data["used"].(Ptr).Cell
	ksC := o.Data["ks"].(Ptr).Cell
	used := int(usedC.V.(*T).Val)
	rs := ex.snapReader(src)
	out := make([]Value, n)
	for i := uint64(0); i < n; i++ {
		if used == 16 {
			in := make([]*T, 16)
			for k := range in {
				in[k] = ctr.Kids[k].V.(*T)
			}
			ks := ex.aesBlock(key, in)
			for k := range ks {
				ex.storeCell(ksC.Kids[k], ks[k])
			}
			// increment counter (big-endian, 128 bit)
			carry := C.True
			for k := 15; k >= 0; k-- {
				b := ctr.Kids[k].V.(*T)
				nb := C.Ite(carry, C.Add(b, C.Const(1, 8)), b)
				carry = C.BAnd(carry, C.Eq(b, C.Const(0xff, 8)))
				ex.storeCell(ctr.Kids[k], nb)
			}
			used = 0
		}
		out[i] = C.Xor(rs(ex.k64(int64(i))).(*T), ksC.Kids[used].V.(*T))
		used++
	}
	ex.storeCell(usedC, ex.k64(int64(used)))
	ex.bulkWrite(dst.Arr, dst.Off, ex.k64(int64(n)), func(i *T) Value { return ex.selectValues(out, i) }, site)
	return Tuple{}
}

// ufCall replaces a call by an uninterpreted function application over its scalar arguments.
func (ex *Exec) ufCall(fn *ssa.Function, sym string, args []Value) Value {
	var ts []*T
	var flatten func(v Value)
	flatten = func(v Value) {
		switch x := v.(type) {
		case *T:
			ts = append(ts, x)
		case Array:
			for _, e := range x.E {
				flatten(e)
			}
		case Struct:
			for _, e := range x.F {
				flatten(e)
			}
		case Slice:
			for _, b := range ex.sliceBytes(x, "uf") {
				ts = append(ts, b)
			}
		case Str:
			ts = append(ts, x.B...)
		default:
			panic(unsupported(fmt.Sprintf("UF argument of kind %T", v)))
		}
	}
	for _, a := range args {
		flatten(a)
	}
	sym = fmt.Sprintf("%s_a%d", sym, len(ts))
	res := fn.Signature.Results()
	mk := func(t types.Type, suffix string) Value {
		w := ex.widthOf(t)
		if w < 0 {
			panic(unsupported("UF result type " + t.String()))
		}
		s := smt.BoolSort
		if w > 0 {
			s = smt.BV(w)
		}
		return ex.C.App(sym+suffix, s, ts...)
	}
	switch res.Len() {
	case 0:
		return Tuple{}
	case 1:
		return mk(res.At(0).Type(), "")
	}
	tu := make(Tuple, res.Len())
	for i := range tu {
		tu[i] = mk(res.At(i).Type(), fmt.Sprintf("_%d", i))
	}
	return tu
}

// ufSliceCall: the call returns a fresh slice of n elements (n = the designated integer argument); element i is
// the uninterpreted function SYM_i applied to all other (scalar / array / byte-slice) arguments.
func (ex *Exec) ufSliceCall(fn *ssa.Function, us ufSliceSpec, args []Value, site string) Value {
	var ts []*T
	var flatten func(v Value)
	flatten = func(v Value) {
		switch x := v.(type) {
		case *T:
			ts = append(ts, x)
		case Array:
			for _, e := range x.E {
				flatten(e)
			}
		case Struct:
			for _, e := range x.F {
				flatten(e)
			}
		case Slice:
			for _, b := range ex.sliceBytes(x, "uf") {
				ts = append(ts, b)
			}
		default:
			panic(unsupported(fmt.Sprintf("UFSlice argument of kind %T", v)))
		}
	}
	var n uint64
	for i, a := range args {
		if i == us.lenArg {
			t := a.(*T)
			n = ex.concretize(t, "UFSlice length", 4096)
			continue
		}
		flatten(a)
	}
	if int64(n) < 0 || n > 1<<16 {
		ex.programPanic("makeslice: len out of range (UFSlice)", site)
	}
	st, ok := fn.Signature.Results().At(0).Type().Underlying().(*types.Slice)
	if !ok {
		panic(unsupported("UFSlice on function not returning a slice"))
	}
	w := ex.widthOf(st.Elem())
	o := ex.newArrayObj(st.Elem(), int(n), "ufslice@"+site)
	for i := uint64(0); i < n; i++ {
		o.Root.Kids[i].V = ex.C.App(fmt.Sprintf("%s_%d_a%d", us.sym, i, len(ts)), smt.BV(w), ts...)
	}
	k := ex.k64(int64(n))
	return Slice{Arr: o.Root, Off: ex.k64(0), Len: k, Cap: k}
}

// ---------- sync.Pool ----------
// Model: one legal behaviour of sync.Pool - a LIFO free list per pool with no item ever dropped (what a single
// goroutine observes between garbage collections): Get returns the item Put most recently, or New() when the list is
// empty. The unchanged library does not use sync.Pool; the model exists so that a change that introduces pooled
// scratch memory is executed instead of ending as "unsupported". Violations found under it are real (the behaviour
// is one the runtime exhibits); absence of violations says nothing about the other legal behaviours.

func poolCell(ex *Exec, v Value) *Cell {
	p, ok := v.(Ptr)
	if !ok || p.Cell == nil {
		panic(unsupported("sync.Pool receiver"))
	}
	return p.Cell
}

func inPoolGet(ex *Exec, fn *ssa.Function, args []Value, site string) Value {
	if ex.mergeDepth > 0 {
		panic(mergeFail{"sync.Pool in speculative arm"})
	}
	c := poolCell(ex, args[0])
	if l := ex.pools[c]; len(l) > 0 {
		v := l[len(l)-1]
		ex.pools[c] = l[:len(l)-1]
		return v
	}
	st, ok := ex.load(args[0].(Ptr), site).(Struct)
	if !ok {
		panic(unsupported("sync.Pool value"))
	}
	pt := fn.Signature.Recv().Type().(*types.Pointer).Elem().Underlying().(*types.Struct)
	for i := 0; i < pt.NumFields(); i++ {
		if pt.Field(i).Name() == "New" {
			f, ok := st.F[i].(Func)
			if !ok || f.Fn == nil {
				return Iface{}
			}
			return ex.callClosure(f, nil, site)
		}
	}
	panic(unsupported("sync.Pool without New field"))
}

func inPoolPut(ex *Exec, fn *ssa.Function, args []Value, site string) Value {
	if ex.mergeDepth > 0 {
		panic(mergeFail{"sync.Pool in speculative arm"})
	}
	c := poolCell(ex, args[0])
	if ex.pools == nil {
		ex.pools = map[*Cell][]Value{}
	}
	ex.pools[c] = append(ex.pools[c], args[1])
	return Tuple{}
}

// ---------- strings.ToLower / ToUpper ----------
// Exact for strings whose non-ASCII octets are concrete (decoded and mapped with the host's unicode tables, so the
// result can be shorter or longer than the input exactly as in Go) and whose symbolic octets are ASCII on the current
// path. A symbolic octet that may be >= 0x80 is unsupported (the path ends inconclusive): Unicode case mapping of
// arbitrary symbolic text is outside what the engine models.
func caseMap(ex *Exec, s Str, lower bool, site string) Value {
	C := ex.C
	var out []*T
	for i := 0; i < len(s.B); {
		b := s.B[i]
		if v, ok := constOf(b); ok && v >= 0x80 {
			j := i
			var raw []byte
			for j < len(s.B) {
				w, ok := constOf(s.B[j])
				if !ok || (j > i && w&0xC0 != 0x80) || len(raw) == 4 {
					break
				}
				raw = append(raw, byte(w))
				j++
			}
			r, size := utf8.DecodeRune(raw)
			var enc []byte
			if r == utf8.RuneError && size <= 1 {
				enc = []byte("\uFFFD") // invalid UTF-8 is replaced, as strings.Map does
				size = 1
			} else if lower {
				enc = []byte(string(unicode.ToLower(r)))
			} else {
				enc = []byte(string(unicode.ToUpper(r)))
			}
			for _, e := range enc {
				out = append(out, C.Const(uint64(e), 8))
			}
			i += size
			continue
		}
		if !b.IsConst() {
			if ex.sat(C.Ule(C.Const(0x80, 8), b)) != smt.Unsat {
				panic(unsupported("strings.ToLower/ToUpper on a symbolic octet that may be non-ASCII"))
			}
		}
		lo, hi, d := uint64('A'), uint64('Z'), uint64(32)
		if !lower {
			lo, hi = 'a', 'z'
		}
		in := C.BAnd(C.Ule(C.Const(lo, 8), b), C.Ule(b, C.Const(hi, 8)))
		var m *T
		if lower {
			m = C.Add(b, C.Const(d, 8))
		} else {
			m = C.Sub(b, C.Const(d, 8))
		}
		out = append(out, C.Ite(in, m, b))
		i++
	}
	return Str{out}
}

func inStringsToLower(ex *Exec, fn *ssa.Function, args []Value, site string) Value {
	return caseMap(ex, args[0].(Str), true, site)
}

func inStringsToUpper(ex *Exec, fn *ssa.Function, args []Value, site string) Value {
	return caseMap(ex, args[0].(Str), false, site)
}
