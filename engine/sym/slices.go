package sym

import (
	"fmt"
	"go/types"

)

// reader returns element i (relative index, width 64) of a snapshot of a slice's current contents.
type reader func(i *T) Value

// snapReader captures the current contents of s.
func (ex *Exec) snapReader(s Slice) reader {
	C := ex.C
	if s.Arr == nil {
		return func(*T) Value { panic("symgo internal: read of nil slice snapshot") }
	}
	if s.Arr.Lazy != nil {
		lz := s.Arr.Lazy
		gen := lz.Gen
		var mat map[uint64]Value
		if lz.Dirty {
			mat = map[uint64]Value{}
			for k, c := range lz.Mat {
				mat[k] = ex.loadCell(c)
			}
		}
		off := s.Off
		return func(i *T) Value {
			idx := C.Add(off, i)
			if k, ok := constOf(idx); ok && mat != nil {
				if v, ok := mat[k]; ok {
					return v
				}
			}
			v := gen(idx)
			if mat != nil {
				if _, isConst := constOf(idx); !isConst {
					for k, mv := range mat {
						v = ex.iteValue(C.Eq(idx, ex.k64(int64(k))), mv, v)
					}
				}
			}
			return v
		}
	}
	kids := s.Arr.Kids
	zero := ex.zero(ex.elemType(s.Arr))
	if o, ok := constOf(s.Off); ok {
		hi := uint64(len(kids))
		if l, ok := constOf(s.Len); ok && o+l < hi {
			hi = o + l
		}
		if o > hi {
			o = hi
		}
		vals := make([]Value, hi-o)
		for j := range vals {
			vals[j] = ex.loadCell(kids[o+uint64(j)])
		}
		return func(i *T) Value {
			if k, ok := constOf(i); ok {
				if k < uint64(len(vals)) {
					return vals[k]
				}
				return zero
			}
			if len(vals) == 0 {
				return zero
			}
			return ex.selectOrZero(vals, i, zero)
		}
	}
	vals := make([]Value, len(kids))
	for j := range vals {
		vals[j] = ex.loadCell(kids[j])
	}
	off := s.Off
	return func(i *T) Value {
		if len(vals) == 0 {
			return zero
		}
		return ex.selectOrZero(vals, C.Add(off, i), zero)
	}
}

func (ex *Exec) selectOrZero(vals []Value, idx *T, zero Value) Value {
	if k, ok := constOf(idx); ok {
		if k < uint64(len(vals)) {
			return vals[k]
		}
		return zero
	}
	if len(vals) > maxIteChain {
		panic(unsupported(fmt.Sprintf("symbolic index into %d-element snapshot", len(vals))))
	}
	v := zero
	for i := len(vals) - 1; i >= 0; i-- {
		v = ex.iteValue(ex.C.Eq(idx, ex.k64(int64(i))), vals[i], v)
	}
	return v
}

func (ex *Exec) umin(a, b *T) *T { return ex.C.Ite(ex.C.Ult(a, b), a, b) }

// bulkWrite stores rd(0..n-1) into elements [off, off+n) of array cell arr. The caller has checked bounds.
func (ex *Exec) bulkWrite(arr *Cell, off, n *T, rd reader, site string) {
	C := ex.C
	if ex.footprint != nil {
		ex.footprint.writeObj(arr)
	}
	if arr.Lazy == nil {
		if o, ok := constOf(off); ok {
			if k, ok := constOf(n); ok {
				for j := uint64(0); j < k; j++ {
					ex.storeCell(arr.Kids[o+j], rd(ex.k64(int64(j))))
				}
				return
			}
			// symbolic count: guard each cell
			for j := o; j < uint64(len(arr.Kids)); j++ {
				rel := ex.k64(int64(j - o))
				g := C.Ult(rel, n)
				if g.IsConst() && g.Val == 0 {
					break
				}
				old := ex.loadCell(arr.Kids[j])
				ex.storeCell(arr.Kids[j], ex.iteValue(g, rd(rel), old))
			}
			return
		}
		// symbolic offset into concrete array
		if len(arr.Kids) > maxIteChain {
			panic(unsupported("bulk write at symbolic offset into large array"))
		}
		for j := range arr.Kids {
			rel := C.Sub(ex.k64(int64(j)), off)
			g := C.Ult(rel, n)
			old := ex.loadCell(arr.Kids[j])
			ex.storeCell(arr.Kids[j], ex.iteValue(g, rd(rel), old))
		}
		return
	}
	// lazy array: wrap the generator
	lz := arr.Lazy
	oldRead := ex.snapReader(Slice{Arr: arr, Off: ex.k64(0), Len: lz.Len, Cap: lz.Len})
	full := false
	if o, ok := constOf(off); ok && o == 0 && n == lz.Len {
		full = true
	}
	nl := &LazyArr{Len: lz.Len, Elem: lz.Elem, Mat: map[uint64]*Cell{}}
	if k, ok := constOf(n); ok && !full && k > 0 && k <= 64 {
		var t *lazyTail
		if lt := lz.tail; lt != nil && !lz.Dirty && len(lz.Mat) == 0 && len(lt.vals) < 4096 && C.Add(lt.off, ex.k64(int64(len(lt.vals)))) == off {
			t = &lazyTail{base: lt.base, off: lt.off, vals: append(append([]Value{}, lt.vals...), make([]Value, k)...)}
		} else {
			t = &lazyTail{base: oldRead, off: off, vals: make([]Value, k)}
		}
		for j := uint64(0); j < k; j++ {
			t.vals[uint64(len(t.vals))-k+j] = rd(ex.k64(int64(j)))
		}
		nl.tail = t
		nl.Gen = ex.tailGen(t)
	} else if full {
		nl.Gen = func(idx *T) Value { return rd(idx) }
	} else {
		nl.Gen = func(idx *T) Value {
			rel := C.Sub(idx, off)
			g := C.Ult(rel, n)
			if g.IsConst() {
				if g.Val != 0 {
					return rd(rel)
				}
				return oldRead(idx)
			}
			return ex.iteValue(g, rd(rel), oldRead(idx))
		}
	}
	if ex.logging > 0 {
		ex.lazyUndo = append(ex.lazyUndo, lazyUndoRec{arr, arr.Lazy})
	}
	arr.Lazy = nl
}

// tailGen: generator of a lazy array that is t.base overlaid with the run t.vals at [t.off, t.off+len(t.vals)).
func (ex *Exec) tailGen(t *lazyTail) func(idx *T) Value {
	C := ex.C
	return func(idx *T) Value {
		rel := C.Sub(idx, t.off)
		g := C.Ult(rel, ex.k64(int64(len(t.vals))))
		if g.IsConst() && g.Val == 0 {
			return t.base(idx)
		}
		if r, ok := constOf(rel); ok && r < uint64(len(t.vals)) {
			return t.vals[r]
		}
		v := t.vals[len(t.vals)-1]
		for j := len(t.vals) - 2; j >= 0; j-- {
			v = ex.iteValue(C.Eq(rel, ex.k64(int64(j))), t.vals[j], v)
		}
		if g.IsConst() {
			return v
		}
		return ex.iteValue(g, v, t.base(idx))
	}
}

// copySlice implements copy(d, s); returns the number of elements copied.
func (ex *Exec) copySlice(d, s Slice, site string) Value {
	n := ex.umin(d.Len, s.Len)
	if z, ok := constOf(n); ok && z == 0 {
		return n
	}
	if d.Arr == nil || s.Arr == nil {
		return ex.k64(0)
	}
	rd := ex.snapReader(Slice{Arr: s.Arr, Off: s.Off, Len: n, Cap: n})
	ex.bulkWrite(d.Arr, d.Off, n, rd, site)
	return n
}

// appendSlice implements append(s, t...).
func (ex *Exec) appendSlice(s, t Slice, st types.Type, site string) Value {
	C := ex.C
	et := st.Underlying().(*types.Slice).Elem()
	if tl, ok := constOf(t.Len); ok && tl == 0 {
		return s
	}
	n, nOK := constOf(s.Len)
	k, kOK := constOf(t.Len)
	cp, cOK := constOf(s.Cap)
	_, oOK := constOf(s.Off)
	if nOK && kOK && cOK && oOK && (s.Arr == nil || s.Arr.Lazy == nil) {
		rd := ex.snapReader(t)
		if n+k <= cp {
			ex.bulkWrite(s.Arr, C.Add(s.Off, s.Len), t.Len, rd, site)
			return Slice{Arr: s.Arr, Off: s.Off, Len: ex.k64(int64(n + k)), Cap: s.Cap}
		}
		nc := 2 * cp
		if nc < n+k {
			nc = n + k
		}
		if nc < 8 && ex.widthOf(et) == 8 {
			nc = 8
		}
		o := ex.newArrayObj(et, int(nc), "append@"+site)
		ex.accountAllocN(et, ex.k64(int64(nc)))
		if n > 0 {
			old := ex.snapReader(s)
			for j := uint64(0); j < n; j++ {
				o.Root.Kids[j].storeRaw(ex, old(ex.k64(int64(j))))
			}
		}
		for j := uint64(0); j < k; j++ {
			o.Root.Kids[n+j].storeRaw(ex, rd(ex.k64(int64(j))))
		}
		return Slice{Arr: o.Root, Off: ex.k64(0), Len: ex.k64(int64(n + k)), Cap: ex.k64(int64(nc))}
	}
	// symbolic lengths: fresh lazy array holding the concatenation
	newLen := C.Add(s.Len, t.Len)
	ex.accountAllocN(et, newLen)
	rdT := ex.snapReader(t)
	var gen func(idx *T) Value
	var newTail *lazyTail
	if kOK && k <= 64 && !(nOK && n == 0) {
		// a few octets appended behind a symbolic-length prefix: keep (or extend) a flat run instead of nesting
		if o, ok := constOf(s.Off); ok && o == 0 && s.Arr != nil && s.Arr.Lazy != nil {
			lz := s.Arr.Lazy
			if lt := lz.tail; lt != nil && !lz.Dirty && len(lz.Mat) == 0 && len(lt.vals) < 4096 && C.Add(lt.off, ex.k64(int64(len(lt.vals)))) == s.Len {
				newTail = &lazyTail{base: lt.base, off: lt.off, vals: append(append([]Value{}, lt.vals...), make([]Value, k)...)}
			}
		}
		if newTail == nil {
			newTail = &lazyTail{base: ex.snapReader(s), off: s.Len, vals: make([]Value, k)}
		}
		for j := uint64(0); j < k; j++ {
			newTail.vals[uint64(len(newTail.vals))-k+j] = rdT(ex.k64(int64(j)))
		}
		gen = ex.tailGen(newTail)
	} else if nOK && n == 0 {
		gen = func(idx *T) Value { return rdT(idx) }
	} else {
		rdS := ex.snapReader(s)
		sl := s.Len
		gen = func(idx *T) Value {
			g := C.Ult(idx, sl)
			if g.IsConst() {
				if g.Val != 0 {
					return rdS(idx)
				}
				return rdT(C.Sub(idx, sl))
			}
			return ex.iteValue(g, rdS(idx), rdT(C.Sub(idx, sl)))
		}
	}
	if s.Arr != nil {
		ex.noteImprecise("append with symbolic length always reallocates (aliasing with spare capacity not modelled)")
	}
	if kn, ok := constOf(newLen); ok {
		// concrete result length after all: materialise
		o := ex.newArrayObj(et, int(kn), "append@"+site)
		for j := uint64(0); j < kn; j++ {
			o.Root.Kids[j].storeRaw(ex, gen(ex.k64(int64(j))))
		}
		return Slice{Arr: o.Root, Off: ex.k64(0), Len: newLen, Cap: newLen}
	}
	o := ex.newLazyArrayObj(et, newLen, gen, "append@"+site)
	o.Root.Lazy.tail = newTail
	return Slice{Arr: o.Root, Off: ex.k64(0), Len: newLen, Cap: newLen}
}

func (c *Cell) storeRaw(ex *Exec, v Value) {
	if !c.Agg {
		c.V = v
		return
	}
	switch vv := v.(type) {
	case Struct:
		for i, k := range c.Kids {
			k.storeRaw(ex, vv.F[i])
		}
	case Array:
		for i, k := range c.Kids {
			k.storeRaw(ex, vv.E[i])
		}
	default:
		panic(unsupported("storeRaw aggregate mismatch"))
	}
}

// elem reads element i (relative, bounds already established) of slice s.
func (ex *Exec) elem(s Slice, i *T, site string) Value {
	return ex.loadIndexed(s.Arr, ex.C.Add(s.Off, i), site)
}

// newByteSlice allocates a fresh concrete byte slice holding the given terms.
func (ex *Exec) newByteSlice(b []*T, site string) Slice {
	o := ex.newArrayObj(types.Typ[types.Uint8], len(b), site)
	for i, t := range b {
		o.Root.Kids[i].V = t
	}
	n := ex.k64(int64(len(b)))
	return Slice{Arr: o.Root, Off: ex.k64(0), Len: n, Cap: n}
}

// ---------- ghost accounting ----------

func (ex *Exec) sizeofType(t types.Type) int64 {
	return ex.Sizes.Sizeof(t)
}

func (ex *Exec) accountAlloc(t types.Type) {
	if ex.allocBytes == nil {
		return
	}
	ex.allocBytes = ex.C.Add(ex.allocBytes, ex.k64(ex.sizeofType(t)))
}

func (ex *Exec) accountAllocN(et types.Type, n *T) {
	if ex.allocBytes == nil {
		return
	}
	ex.allocBytes = ex.C.Add(ex.allocBytes, ex.C.Mul(n, ex.k64(ex.sizeofType(et))))
}

// ---------- maps ----------

// MapState: a Go map as a guarded association list (newest entry last). lookup(k) scans from the newest entry:
// the first entry with guard && key == k decides presence and value. Pure bit-vector terms, no array theory.
type MapEntry struct {
	Guard, Key, Pres *T
	Val   Value
	KeyS  Value // string-keyed maps: the key as a Str (Key is nil)
}

// mapKey splits a key value into its scalar / string form.
func mapKey(k Value) (*T, Value) {
	if s, ok := k.(Str); ok {
		return nil, s
	}
	return k.(*T), nil
}

func (ex *Exec) mapKeyEq(e MapEntry, k Value) *T {
	if s, ok := k.(Str); ok {
		return ex.strEq(e.KeyS.(Str), s)
	}
	return ex.C.Eq(e.Key, k.(*T))
}

func sameMapKey(a, b MapEntry) bool {
	if a.Key != b.Key {
		return false
	}
	if a.KeyS == nil || b.KeyS == nil {
		return a.KeyS == nil && b.KeyS == nil
	}
	return sameValue(a.KeyS, b.KeyS)
}

type MapState struct {
	E     []MapEntry
	Count *T
	// Base: initial contents given intensionally (vrt.MapFillRange): every key k with Lo <= k < Hi and k != Except is
	// present with value Val. Lets a harness start from a map with tens of thousands of entries at no cost per entry.
	Base *MapBase
}

type MapBase struct {
	Lo, Hi, Except *T
	Val            Value
}

func (ex *Exec) makeMap(t types.Type) *MapV {
	mt := t.Underlying().(*types.Map)
	kw := ex.widthOf(mt.Key())
	if b, ok := mt.Key().Underlying().(*types.Basic); ok && b.Info()&types.IsString != 0 {
		kw = 1 // string keys: compared with strEq (see mapKeyEq)
	}
	if kw <= 0 {
		panic(unsupported("map key type " + mt.Key().String()))
	}
	ex.nobj++
	o := &Obj{ID: ex.nobj, Site: "makemap"}
	st := &Cell{Obj: o, T: t}
	o.Root = st
	st.V = MapState{Count: ex.k64(0)}
	return &MapV{KeyW: kw, St: st, Elem: mt.Elem()}
}

func (ex *Exec) mapFind(st MapState, kv Value, zero Value) (Value, *T) {
	k, _ := mapKey(kv)
	C := ex.C
	val := zero
	pres := C.False
	if b := st.Base; b != nil && k != nil {
		pres = C.BAnd(C.BAnd(C.Sle(b.Lo, k), C.Slt(k, b.Hi)), C.BNot(C.Eq(k, b.Except)))
		val = ex.iteValue(pres, b.Val, zero)
	}
	for _, e := range st.E { // oldest first; newer entries override
		hit := C.BAnd(e.Guard, ex.mapKeyEq(e, kv))
		if hit.IsConst() && hit.Val == 0 {
			continue
		}
		pres = C.Ite(hit, e.Pres, pres)
		val = ex.iteValue(hit, e.Val, val)
	}
	// an absent key reads as the zero value
	return ex.iteValue(pres, val, zero), pres
}

func (ex *Exec) mapLookup(m *MapV, key Value, mt types.Type) (Value, *T) {
	et := mt.Underlying().(*types.Map).Elem()
	if m.Nil {
		return ex.zero(et), ex.C.False
	}
	return ex.mapFind(m.St.V.(MapState), key, ex.zero(et))
}

func (ex *Exec) mapHas(m *MapV, k *T) *T {
	if m.Nil {
		return ex.C.False
	}
	_, p := ex.mapFind(m.St.V.(MapState), k, ex.zero(m.Elem))
	return p
}

func (ex *Exec) mapUpdate(m *MapV, key, val Value, site string, _ func(*MapV)) {
	if m.Nil {
		ex.programPanic("assignment to entry in nil map", site)
	}
	C := ex.C
	st := m.St.V.(MapState)
	k, ks := mapKey(key)
	_, was := ex.mapFind(st, key, ex.zero(m.Elem))
	ns := MapState{Base: st.Base, E: append(append([]MapEntry{}, st.E...), MapEntry{Guard: C.True, Key: k, KeyS: ks, Pres: C.True, Val: val})}
	if st.Count != nil {
		ns.Count = C.Ite(was, st.Count, C.Add(st.Count, ex.k64(1)))
	}
	ex.writeLeaf(m.St, ns)
}

func (ex *Exec) mapDelete(m *MapV, key Value) {
	if m.Nil {
		return
	}
	C := ex.C
	st := m.St.V.(MapState)
	k, ks := mapKey(key)
	_, was := ex.mapFind(st, key, ex.zero(m.Elem))
	ns := MapState{Base: st.Base, E: append(append([]MapEntry{}, st.E...), MapEntry{Guard: C.True, Key: k, KeyS: ks, Pres: C.False, Val: ex.zero(m.Elem)})}
	if st.Count != nil {
		ns.Count = C.Ite(was, C.Sub(st.Count, ex.k64(1)), st.Count)
	}
	ex.writeLeaf(m.St, ns)
}

// mergeMapStates: ite(c, a, b) on association lists sharing a common prefix.
func (ex *Exec) mergeMapStates(c *T, a, b MapState) MapState {
	C := ex.C
	n := 0
	for n < len(a.E) && n < len(b.E) && a.E[n].Guard == b.E[n].Guard && sameMapKey(a.E[n], b.E[n]) && a.E[n].Pres == b.E[n].Pres && sameValue(a.E[n].Val, b.E[n].Val) {
		n++
	}
	out := append([]MapEntry{}, a.E[:n]...)
	for _, e := range a.E[n:] {
		e.Guard = C.BAnd(e.Guard, c)
		out = append(out, e)
	}
	nc := C.BNot(c)
	for _, e := range b.E[n:] {
		e.Guard = C.BAnd(e.Guard, nc)
		out = append(out, e)
	}
	if a.Base != b.Base {
		panic(unsupported("merge of maps with different intensional bases"))
	}
	m := MapState{E: out, Base: a.Base}
	if a.Count != nil && b.Count != nil {
		m.Count = C.Ite(c, a.Count, b.Count)
	}
	return m
}
