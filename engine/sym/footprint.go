package sym

import (
	"fmt"

	"golang.org/x/tools/go/ssa"

	"verif/engine/smt"
)

// Footprint records which pre-existing objects a region of execution writes, and which globals it touches.
type Footprint struct {
	epoch   int
	owned   map[*Obj]bool
	foreign map[*Obj]string // pre-existing, not owned objects that were written
	globalsW map[string]bool
	globalsR map[string]bool
	ex      *Exec
}

func (f *Footprint) noteWrite(c *Cell) {
	o := c.Obj
	if o == nil {
		return
	}
	if len(o.Site) > 7 && o.Site[:7] == "global " {
		if _, ok := f.foreign[o]; !ok {
			f.foreign[o] = o.Site
		}
		return
	}
	if o.ID > f.epoch || f.owned[o] {
		return
	}
	if _, ok := f.foreign[o]; !ok {
		f.foreign[o] = o.Site
	}
}

func (f *Footprint) writeObj(c *Cell) { f.noteWrite(c) }
func (f *Footprint) read(c *Cell) {
	if c.Obj != nil && len(c.Obj.Site) > 7 && c.Obj.Site[:7] == "global " {
		f.globalsR[c.Obj.Site[7:]] = true
	}
}

func (ex *Exec) footprintBegin() {
	f := &Footprint{epoch: ex.nobj, owned: map[*Obj]bool{}, foreign: map[*Obj]string{}, globalsW: map[string]bool{}, globalsR: map[string]bool{}, ex: ex}
	ex.footprint = f
	ex.onWrite = f.noteWrite
}

func (ex *Exec) footprintOwn(v Value) {
	if ex.footprint == nil {
		return
	}
	seen := map[*Cell]bool{}
	ex.reachCells(v, seen, map[*Cell]bool{})
	for c := range seen {
		ex.footprint.owned[c.Obj] = true
	}
}

func (ex *Exec) footprintEnd(label, site string) {
	f := ex.footprint
	if f == nil {
		return
	}
	ex.footprint = nil
	ex.onWrite = nil
	ex.reach(label)
	if len(f.foreign) == 0 {
		if ex.inNewTerritory() {
			ex.stats.Proved++
		}
		return
	}
	for o, s := range f.foreign {
		_ = o
		if ex.inNewTerritory() {
			r, model := ex.satModel()
			if r == smt.Unsat {
				continue
			}
			ex.stats.Violated++
			ex.report(Report{Kind: "footprint", Label: label + ": write to object not owned by the call: " + s, Site: site, Status: "violated", Model: model})
		}
	}
}

var _ = fmt.Sprint
var _ *ssa.Function

// tableLookup: constant lookup tables indexed symbolically become an uninterpreted function with point axioms.
func (ex *Exec) tableLookup(arr *Cell, idx *T) (Value, bool) {
	n := len(arr.Kids)
	if n < 16 {
		return nil, false
	}
	w := -1
	for _, k := range arr.Kids {
		t, ok := k.V.(*T)
		if k.Agg || !ok || !t.IsConst() || t.S.IsBool() {
			return nil, false
		}
		if w < 0 {
			w = t.W()
		}
	}
	if len(arr.Obj.Site) <= 7 || arr.Obj.Site[:7] != "global " {
		return nil, false
	}
	name, known := ex.tables[arr]
	if !known {
		h := uint64(1469598103934665603)
		for _, k := range arr.Kids {
			h = (h ^ k.V.(*T).Val) * 1099511628211
		}
		name = fmt.Sprintf("tbl%d_%x", n, h&0xffffffffffff)
		ex.tables[arr] = name
	}
	// index width: smallest power-of-two cover
	iw := 1
	for (1 << uint(iw)) < n {
		iw++
	}
	ix := ex.C.Extract(idx, iw-1, 0)
	app := ex.C.App(name, smt.BV(w), ix)
	if !known {
		for i, k := range arr.Kids {
			ax := ex.C.Eq(ex.C.App(name, smt.BV(w), ex.C.Const(uint64(i), iw)), k.V.(*T))
			ex.S.AddAxiom(ax)
		}
	}
	return app, true
}

func sanitize(s string) string {
	b := []byte(s)
	for i, c := range b {
		if !(c >= 'a' && c <= 'z' || c >= 'A' && c <= 'Z' || c >= '0' && c <= '9' || c == '_') {
			b[i] = '_'
		}
	}
	return string(b)
}

func (ex *Exec) noteConsumed(buf Slice, upto *T) {
	if ex.consumed == nil {
		return
	}
	ex.consumed[buf.Arr] = upto
}
