package sym

import (
	"fmt"
	"go/token"
	"go/types"
	"unicode/utf8"

	"golang.org/x/tools/go/ssa"

	"verif/engine/smt"
)

func (fr *frame) exec(ins ssa.Instruction) {
	ex := fr.ex
	switch ins := ins.(type) {
	case *ssa.DebugRef:
	case *ssa.Alloc:
		et := ins.Type().(*types.Pointer).Elem()
		o := ex.newObj(et, "alloc@"+ex.site(ins.Pos(), fr.fn))
		ex.accountAlloc(et)
		fr.env[ins] = Ptr{Cell: o.Root}
	case *ssa.BinOp:
		fr.env[ins] = ex.binop(ins.Op, fr.get(ins.X), fr.get(ins.Y), ins.X.Type(), ins.Y.Type(), ex.site(ins.Pos(), fr.fn))
	case *ssa.UnOp:
		fr.env[ins] = fr.unop(ins)
	case *ssa.Call:
		if callee := ins.Call.StaticCallee(); callee != nil && ins.Call.Method == nil && onlyLogged(ins, callee) {
			// a string that flows only into logging calls is not computed (avoids forking on its digits); Go does
			// evaluate it, so what it allocates still counts for the allocation ghost: hex.EncodeToString makes a
			// 2n-octet buffer and a 2n-octet string (the constant-size results of Itoa/FormatInt are ignored, the
			// arguments of Sprintf/Sprint are not sized - stated in DESIGN as outside the allocation claim)
			if callee.String() == "encoding/hex.EncodeToString" && len(ins.Call.Args) == 1 {
				if sl, ok := fr.get(ins.Call.Args[0]).(Slice); ok {
					ex.accountAllocN(types.Typ[types.Uint8], ex.C.Mul(sl.Len, ex.k64(4)))
				}
			}
			fr.env[ins] = ex.strConst("?")
			return
		}
		fr.env[ins] = fr.callInstr(ins.Common(), ins.Pos())
	case *ssa.ChangeInterface:
		fr.env[ins] = fr.get(ins.X)
	case *ssa.ChangeType:
		fr.env[ins] = fr.get(ins.X)
	case *ssa.Convert:
		fr.env[ins] = ex.convert(fr.get(ins.X), ins.X.Type(), ins.Type(), ex.site(ins.Pos(), fr.fn))
	case *ssa.MultiConvert:
		fr.env[ins] = ex.convert(fr.get(ins.X), ins.X.Type(), ins.Type(), ex.site(ins.Pos(), fr.fn))
	case *ssa.Extract:
		fr.env[ins] = fr.get(ins.Tuple).(Tuple)[ins.Index]
	case *ssa.Field:
		fr.env[ins] = fr.get(ins.X).(Struct).F[ins.Field]
	case *ssa.FieldAddr:
		p := fr.get(ins.X).(Ptr)
		if p.IsNil() {
			ex.programPanic("nil pointer dereference (field address)", ex.site(ins.Pos(), fr.fn))
		}
		c := p.Cell
		if c == nil {
			// pointer to symbolic element of array of structs
			k := ex.concretize(p.Idx, "struct element index", 256)
			c = ex.kid(p.Arr, k)
		}
		fr.env[ins] = Ptr{Cell: c.Kids[ins.Field]}
	case *ssa.Index:
		x := fr.get(ins.X)
		idx := ex.toIndex(fr.term(ins.Index), ins.Index.Type())
		site := ex.site(ins.Pos(), fr.fn)
		switch xv := x.(type) {
		case Array:
			ex.safe(ex.C.Ult(idx, ex.k64(int64(len(xv.E)))), "index out of range", site)
			fr.env[ins] = ex.selectValues(xv.E, idx)
		case Str:
			ex.safe(ex.C.Ult(idx, ex.k64(int64(len(xv.B)))), "index out of range", site)
			vs := make([]Value, len(xv.B))
			for i, b := range xv.B {
				vs[i] = b
			}
			fr.env[ins] = ex.selectValues(vs, idx)
		default:
			panic(unsupported(fmt.Sprintf("Index of %T", x)))
		}
	case *ssa.IndexAddr:
		fr.env[ins] = fr.indexAddr(ins)
	case *ssa.Lookup:
		fr.env[ins] = fr.lookup(ins)
	case *ssa.MakeInterface:
		fr.env[ins] = Iface{T: ins.X.Type(), V: fr.get(ins.X)}
	case *ssa.MakeMap:
		fr.env[ins] = ex.makeMap(ins.Type())
	case *ssa.MakeSlice:
		fr.env[ins] = fr.makeSlice(ins)
	case *ssa.MapUpdate:
		ex.mapUpdate(fr.get(ins.Map).(*MapV), fr.get(ins.Key), fr.get(ins.Value), ex.site(ins.Pos(), fr.fn), func(m *MapV) {
			fr.rebindMap(ins.Map, m)
		})
	case *ssa.Slice:
		fr.env[ins] = fr.sliceInstr(ins)
	case *ssa.Store:
		p := fr.get(ins.Addr).(Ptr)
		ex.store(p, fr.get(ins.Val), ex.site(ins.Pos(), fr.fn))
	case *ssa.TypeAssert:
		fr.env[ins] = fr.typeAssert(ins)
	case *ssa.MakeClosure:
		b := make([]Value, len(ins.Bindings))
		for i, x := range ins.Bindings {
			b[i] = fr.get(x)
		}
		fr.env[ins] = Func{Fn: ins.Fn.(*ssa.Function), Bind: b}
	case *ssa.Range:
		x := fr.get(ins.X)
		switch xv := x.(type) {
		case Str:
			o := ex.newObj(types.Typ[types.Int], "range")
			fr.env[ins] = Opaque{Kind: "strIter", Data: map[string]Value{"s": xv, "pos": Ptr{Cell: o.Root}}}
		default:
			panic(unsupported(fmt.Sprintf("range over %T", x)))
		}
	case *ssa.Next:
		fr.env[ins] = fr.next(ins)
	case *ssa.Defer:
		c := ins.Common()
		call := *c
		args := make([]Value, len(call.Args))
		for i, a := range call.Args {
			args[i] = fr.get(a)
		}
		var fv Value
		if call.Method == nil {
			if _, isB := call.Value.(*ssa.Builtin); !isB {
				fv = fr.get(call.Value)
			}
		}
		pos := ins.Pos()
		fr.defers = append(fr.defers, func() {
			fr.invoke(&call, fv, args, pos)
		})
	case *ssa.RunDefers:
		for len(fr.defers) > 0 {
			d := fr.defers[len(fr.defers)-1]
			fr.defers = fr.defers[:len(fr.defers)-1]
			d()
		}
	case *ssa.Go, *ssa.Send, *ssa.Select:
		ex.noteConcurrency(fmt.Sprintf("%T in %s", ins, fr.fn))
		panic(unsupported(fmt.Sprintf("concurrency construct %T in %s", ins, fr.fn)))
	default:
		panic(unsupported(fmt.Sprintf("instruction %T in %s", ins, fr.fn)))
	}
}

func (ex *Exec) noteConcurrency(s string) { ex.noteImprecise("concurrency: " + s) }

// rebindMap: maps are values holding SMT arrays; an update produces a new MapV which must replace the old one
// wherever it is stored. We keep map identity by mutating in place instead (see mapUpdate), so this is a no-op.
func (fr *frame) rebindMap(v ssa.Value, m *MapV) {}

func (ex *Exec) toIndex(t *T, typ types.Type) *T {
	w := ex.widthOf(typ)
	if w == 64 {
		return t
	}
	return ex.C.Resize(t, 64, isSigned(typ))
}

// selectValues picks vs[idx] with idx already known to be in range.
func (ex *Exec) selectValues(vs []Value, idx *T) Value {
	if k, ok := constOf(idx); ok {
		return vs[k]
	}
	if v, ok := ex.tryIte(func() Value {
		v := vs[len(vs)-1]
		for i := len(vs) - 2; i >= 0; i-- {
			v = ex.iteValue(ex.C.Eq(idx, ex.k64(int64(i))), vs[i], v)
		}
		return v
	}); ok {
		return v
	}
	return vs[ex.concretize(idx, "select index", 4096)]
}

func (fr *frame) indexAddr(ins *ssa.IndexAddr) Value {
	ex := fr.ex
	site := ex.site(ins.Pos(), fr.fn)
	idx := ex.toIndex(fr.term(ins.Index), ins.Index.Type())
	switch xv := fr.get(ins.X).(type) {
	case Ptr: // *array
		if xv.IsNil() {
			ex.programPanic("nil pointer dereference (index)", site)
		}
		arr := xv.Cell
		if arr == nil {
			panic(unsupported("index of symbolic array element pointer"))
		}
		ex.safe(ex.C.Ult(idx, ex.arrLen(arr)), "index out of range", site)
		if k, ok := constOf(idx); ok {
			return Ptr{Cell: ex.kid(arr, k)}
		}
		return Ptr{Arr: arr, Idx: idx}
	case Slice:
		ex.safe(ex.C.Ult(idx, xv.Len), "index out of range", site)
		abs := ex.C.Add(xv.Off, idx)
		if k, ok := constOf(abs); ok {
			c := ex.kid(xv.Arr, k)
			if c == nil {
				// only possible on an infeasible path (e.g. an arm executed speculatively during state merging)
				if ex.mergeDepth > 0 {
					panic(mergeFail{"element beyond backing array in speculative arm"})
				}
				if ex.sat() == smt.Unsat {
					panic(pathEnd{"infeasible"})
				}
				panic("symgo internal: slice element beyond backing array")
			}
			return Ptr{Cell: c}
		}
		return Ptr{Arr: xv.Arr, Idx: abs}
	default:
		panic(unsupported(fmt.Sprintf("IndexAddr of %T", xv)))
	}
}

func (fr *frame) makeSlice(ins *ssa.MakeSlice) Value {
	ex := fr.ex
	site := ex.site(ins.Pos(), fr.fn)
	et := ins.Type().Underlying().(*types.Slice).Elem()
	n := ex.toIndex(fr.term(ins.Len), ins.Len.Type())
	cp := ex.toIndex(fr.term(ins.Cap), ins.Cap.Type())
	ex.safe(ex.C.Sle(ex.k64(0), n), "makeslice: len out of range", site)
	ex.safe(ex.C.Sle(n, cp), "makeslice: cap out of range", site)
	return ex.makeSliceOf(et, n, cp, site)
}

func (ex *Exec) makeSliceOf(et types.Type, n, cp *T, site string) Slice {
	ex.accountAllocN(et, cp)
	if k, ok := constOf(cp); ok {
		if k > 1<<20 {
			panic(unsupported("make of more than 2^20 elements"))
		}
		o := ex.newArrayObj(et, int(k), "make@"+site)
		return Slice{Arr: o.Root, Off: ex.k64(0), Len: n, Cap: cp}
	}
	z := ex.zero(et)
	o := ex.newLazyArrayObj(et, cp, func(*T) Value { return z }, "make@"+site)
	return Slice{Arr: o.Root, Off: ex.k64(0), Len: n, Cap: cp}
}

func (fr *frame) sliceInstr(ins *ssa.Slice) Value {
	ex := fr.ex
	site := ex.site(ins.Pos(), fr.fn)
	opt := func(v ssa.Value) *T {
		if v == nil {
			return nil
		}
		return ex.toIndex(fr.term(v), v.Type())
	}
	lo, hi, mx := opt(ins.Low), opt(ins.High), opt(ins.Max)
	x := fr.get(ins.X)
	switch xv := x.(type) {
	case Str:
		n := int64(len(xv.B))
		if lo == nil {
			lo = ex.k64(0)
		}
		if hi == nil {
			hi = ex.k64(n)
		}
		ex.safe(ex.C.Ule(hi, ex.k64(n)), "slice bounds out of range (string high)", site)
		ex.safe(ex.C.Ule(lo, hi), "slice bounds out of range (string low)", site)
		l := ex.concretize(lo, "string slice low", 1024)
		h := ex.concretize(hi, "string slice high", 1024)
		return Str{xv.B[l:h]}
	case Ptr: // *array
		if xv.IsNil() {
			ex.programPanic("nil pointer dereference (slice of array pointer)", site)
		}
		arr := xv.Cell
		return ex.reslice(arr, ex.k64(0), ex.arrLen(arr), ex.arrLen(arr), lo, hi, mx, site)
	case Slice:
		return ex.reslice(xv.Arr, xv.Off, xv.Len, xv.Cap, lo, hi, mx, site)
	}
	panic(unsupported(fmt.Sprintf("Slice of %T", x)))
}

func (ex *Exec) reslice(arr *Cell, off, ln, cp, lo, hi, mx *T, site string) Slice {
	if lo == nil {
		lo = ex.k64(0)
	}
	if hi == nil {
		hi = ln
	}
	if mx == nil {
		mx = cp
	} else {
		ex.safe(ex.C.Ule(mx, cp), "slice bounds out of range (max)", site)
	}
	ex.safe(ex.C.Ule(hi, mx), "slice bounds out of range (high)", site)
	ex.safe(ex.C.Ule(lo, hi), "slice bounds out of range (low)", site)
	if arr == nil {
		return Slice{Off: ex.k64(0), Len: ex.k64(0), Cap: ex.k64(0)}
	}
	return Slice{Arr: arr, Off: ex.C.Add(off, lo), Len: ex.C.Sub(hi, lo), Cap: ex.C.Sub(mx, lo)}
}

func (fr *frame) unop(ins *ssa.UnOp) Value {
	ex := fr.ex
	x := fr.get(ins.X)
	switch ins.Op {
	case token.MUL:
		p, ok := x.(Ptr)
		if !ok {
			panic(unsupported(fmt.Sprintf("load through %T", x)))
		}
		v := ex.load(p, ex.site(ins.Pos(), fr.fn))
		if ex.footprint != nil && p.Cell != nil {
			ex.footprint.read(p.Cell)
		}
		return v
	case token.NOT:
		return ex.C.BNot(x.(*T))
	case token.SUB:
		return ex.C.Neg(x.(*T))
	case token.XOR:
		return ex.C.Not(x.(*T))
	}
	panic(unsupported("unop " + ins.Op.String()))
}

func (ex *Exec) binop(op token.Token, x, y Value, xt, yt types.Type, site string) Value {
	C := ex.C
	switch xv := x.(type) {
	case *T:
		yv, ok := y.(*T)
		if !ok {
			panic(unsupported(fmt.Sprintf("binop %s of scalar and %T", op, y)))
		}
		if xv.S.IsBool() {
			switch op {
			case token.EQL:
				return C.Eq(xv, yv)
			case token.NEQ:
				return C.BNot(C.Eq(xv, yv))
			case token.AND, token.LAND:
				return C.BAnd(xv, yv)
			case token.OR, token.LOR:
				return C.BOr(xv, yv)
			}
			panic(unsupported("bool binop " + op.String()))
		}
		signed := isSigned(xt)
		switch op {
		case token.SHL, token.SHR:
			return ex.shift(op, xv, yv, signed, isSigned(yt), site)
		}
		if xv.S != yv.S {
			panic(unsupported(fmt.Sprintf("binop %s width mismatch %v %v at %s", op, xv.S, yv.S, site)))
		}
		switch op {
		case token.ADD:
			return C.Add(xv, yv)
		case token.SUB:
			return C.Sub(xv, yv)
		case token.MUL:
			return C.Mul(xv, yv)
		case token.QUO:
			ex.safe(C.BNot(C.Eq(yv, C.Const(0, yv.W()))), "integer divide by zero", site)
			if signed {
				return C.SDiv(xv, yv)
			}
			return C.UDiv(xv, yv)
		case token.REM:
			ex.safe(C.BNot(C.Eq(yv, C.Const(0, yv.W()))), "integer divide by zero", site)
			if signed {
				return C.SRem(xv, yv)
			}
			return C.URem(xv, yv)
		case token.AND:
			return C.And(xv, yv)
		case token.OR:
			return C.Or(xv, yv)
		case token.XOR:
			return C.Xor(xv, yv)
		case token.AND_NOT:
			return C.And(xv, C.Not(yv))
		case token.EQL:
			return C.Eq(xv, yv)
		case token.NEQ:
			return C.BNot(C.Eq(xv, yv))
		case token.LSS:
			if signed {
				return C.Slt(xv, yv)
			}
			return C.Ult(xv, yv)
		case token.LEQ:
			if signed {
				return C.Sle(xv, yv)
			}
			return C.Ule(xv, yv)
		case token.GTR:
			if signed {
				return C.Slt(yv, xv)
			}
			return C.Ult(yv, xv)
		case token.GEQ:
			if signed {
				return C.Sle(yv, xv)
			}
			return C.Ule(yv, xv)
		}
	case Str:
		yv := y.(Str)
		switch op {
		case token.ADD:
			b := make([]*T, 0, len(xv.B)+len(yv.B))
			b = append(append(b, xv.B...), yv.B...)
			return Str{b}
		case token.EQL:
			return ex.strEq(xv, yv)
		case token.NEQ:
			return C.BNot(ex.strEq(xv, yv))
		case token.LSS:
			return ex.strLess(xv, yv, false)
		case token.LEQ:
			return ex.strLess(xv, yv, true)
		case token.GTR:
			return ex.strLess(yv, xv, false)
		case token.GEQ:
			return ex.strLess(yv, xv, true)
		}
	default:
		switch op {
		case token.EQL:
			return ex.valueEq(x, y)
		case token.NEQ:
			return C.BNot(ex.valueEq(x, y))
		}
	}
	panic(unsupported(fmt.Sprintf("binop %s on %T", op, x)))
}

func (ex *Exec) shift(op token.Token, x, y *T, xSigned, ySigned bool, site string) Value {
	C := ex.C
	w := x.W()
	if ySigned {
		ex.safe(C.Sle(C.Const(0, y.W()), y), "negative shift amount", site)
	}
	var yy *T
	var big *T = C.False
	if y.W() > w {
		big = C.Ule(C.Const(uint64(w), y.W()), y)
		yy = C.Extract(y, w-1, 0)
	} else {
		yy = C.ZExt(y, w)
	}
	var r, over *T
	switch {
	case op == token.SHL:
		r, over = C.Shl(x, yy), C.Const(0, w)
	case xSigned:
		r, over = C.AShr(x, yy), C.AShr(x, C.Const(uint64(w-1), w))
	default:
		r, over = C.LShr(x, yy), C.Const(0, w)
	}
	return C.Ite(big, over, r)
}

func (ex *Exec) strEq(a, b Str) *T {
	if len(a.B) != len(b.B) {
		return ex.C.False
	}
	r := ex.C.True
	for i := range a.B {
		r = ex.C.BAnd(r, ex.C.Eq(a.B[i], b.B[i]))
	}
	return r
}

func (ex *Exec) strLess(a, b Str, orEq bool) *T {
	// lexicographic compare
	C := ex.C
	n := len(a.B)
	if len(b.B) < n {
		n = len(b.B)
	}
	var res *T
	if len(a.B) < len(b.B) {
		res = C.True
	} else if len(a.B) == len(b.B) {
		res = C.Bool(orEq)
	} else {
		res = C.False
	}
	for i := n - 1; i >= 0; i-- {
		res = C.Ite(C.Eq(a.B[i], b.B[i]), res, C.Ult(a.B[i], b.B[i]))
	}
	return res
}

// valueEq implements == on non-scalar comparable values.
func (ex *Exec) valueEq(x, y Value) *T {
	C := ex.C
	switch xv := x.(type) {
	case *T:
		if yv, ok := y.(*T); ok && xv.S == yv.S {
			return C.Eq(xv, yv)
		}
		return C.False
	case Ptr:
		yv, ok := y.(Ptr)
		if !ok {
			return C.False
		}
		if xv.Cell != nil || yv.Cell != nil || xv.IsNil() || yv.IsNil() {
			return C.Bool(xv == yv)
		}
		if xv.Arr != yv.Arr {
			return C.False
		}
		return C.Eq(xv.Idx, yv.Idx)
	case Slice: // only comparable with nil
		yv := y.(Slice)
		if yv.Arr == nil {
			return C.Bool(xv.Arr == nil)
		}
		if xv.Arr == nil {
			return C.Bool(yv.Arr == nil)
		}
		panic(unsupported("slice comparison"))
	case *MapV:
		yv := y.(*MapV)
		if yv.Nil || xv.Nil {
			return C.Bool(xv.Nil == yv.Nil)
		}
		return C.Bool(xv == yv)
	case Func:
		yv := y.(Func)
		return C.Bool((xv.Fn == nil && xv.Builtin == nil) == (yv.Fn == nil && yv.Builtin == nil))
	case Iface:
		yv, ok := y.(Iface)
		if !ok {
			return C.False
		}
		if xv.T == nil || yv.T == nil {
			return C.Bool(xv.T == nil && yv.T == nil)
		}
		if !types.Identical(xv.T, yv.T) {
			return C.False
		}
		return ex.valueEq(xv.V, yv.V)
	case Str:
		if yv, ok := y.(Str); ok {
			return ex.strEq(xv, yv)
		}
		return C.False
	case Struct:
		yv := y.(Struct)
		r := C.True
		for i := range xv.F {
			r = C.BAnd(r, ex.valueEq(xv.F[i], yv.F[i]))
		}
		return r
	case Array:
		yv := y.(Array)
		r := C.True
		for i := range xv.E {
			r = C.BAnd(r, ex.valueEq(xv.E[i], yv.E[i]))
		}
		return r
	case Opaque:
		yv, ok := y.(Opaque)
		return C.Bool(ok && xv.Kind == yv.Kind && xv.ID == yv.ID)
	}
	panic(unsupported(fmt.Sprintf("== on %T", x)))
}

func (ex *Exec) convert(x Value, from, to types.Type, site string) Value {
	C := ex.C
	fu, tu := from.Underlying(), to.Underlying()
	if tb, ok := tu.(*types.Basic); ok {
		if tb.Info()&types.IsString != 0 {
			switch xv := x.(type) {
			case Str:
				return xv
			case Slice: // []byte or []rune -> string
				if sl, ok := fu.(*types.Slice); ok && ex.widthOf(sl.Elem()) == 8 {
					return Str{ex.sliceBytes(xv, site)}
				}
				panic(unsupported("[]rune to string"))
			case *T: // integer -> string (rune)
				return ex.runeToString(xv, from)
			}
		}
		if tb.Kind() == types.UnsafePointer {
			return x
		}
		if tb.Info()&types.IsInteger != 0 {
			switch xv := x.(type) {
			case *T:
				return C.Resize(xv, ex.widthOf(to), isSigned(from))
			case Opaque: // float -> int
				panic(unsupported("float to int conversion"))
			case Ptr:
				return x
			}
		}
		if tb.Info()&types.IsFloat != 0 {
			return Opaque{Kind: "float"}
		}
	}
	if ts, ok := tu.(*types.Slice); ok {
		if s, ok := x.(Str); ok { // string -> []byte / []rune
			if ex.widthOf(ts.Elem()) != 8 {
				panic(unsupported("string to []rune"))
			}
			o := ex.newArrayObj(ts.Elem(), len(s.B), "string->bytes@"+site)
			ex.accountAllocN(ts.Elem(), ex.k64(int64(len(s.B))))
			for i, b := range s.B {
				o.Root.Kids[i].V = b
			}
			n := ex.k64(int64(len(s.B)))
			return Slice{Arr: o.Root, Off: ex.k64(0), Len: n, Cap: n}
		}
		return x
	}
	if _, ok := tu.(*types.Pointer); ok {
		return x
	}
	panic(unsupported(fmt.Sprintf("convert %s -> %s", from, to)))
}

// sliceBytes reads the elements of a byte slice of concretisable length.
func (ex *Exec) sliceBytes(s Slice, site string) []*T {
	n := ex.concretize(s.Len, "slice length", 4096)
	out := make([]*T, n)
	for i := uint64(0); i < n; i++ {
		out[i] = ex.loadIndexed(s.Arr, ex.C.Add(s.Off, ex.k64(int64(i))), site).(*T)
	}
	return out
}

func (ex *Exec) runeToString(x *T, from types.Type) Value {
	C := ex.C
	w := x.W()
	r := C.Resize(x, 32, isSigned(from))
	if w > 32 {
		// out-of-range values become U+FFFD
		if ex.branch(C.BNot(C.Eq(C.Resize(r, w, isSigned(from)), x))) {
			return ex.strConst("�")
		}
	}
	if v, ok := constOf(r); ok {
		rv := rune(int32(v))
		if rv < 0 || rv > utf8.MaxRune || (rv >= 0xD800 && rv <= 0xDFFF) {
			rv = utf8.RuneError
		}
		return ex.strConst(string(rv))
	}
	k := func(v uint64) *T { return C.Const(v, 32) }
	if ex.branch(C.Ult(r, k(0x80))) {
		return Str{[]*T{C.Extract(r, 7, 0)}}
	}
	if ex.branch(C.Ult(r, k(0x800))) {
		b0 := C.Or(C.Const(0xC0, 8), C.Extract(C.LShr(r, k(6)), 7, 0))
		b1 := C.Or(C.Const(0x80, 8), C.And(C.Extract(r, 7, 0), C.Const(0x3F, 8)))
		return Str{[]*T{b0, b1}}
	}
	bad := C.BOr(C.Ult(k(0x10FFFF), r), C.BAnd(C.Ule(k(0xD800), r), C.Ule(r, k(0xDFFF))))
	if ex.branch(bad) {
		return ex.strConst("�")
	}
	if ex.branch(C.Ult(r, k(0x10000))) {
		b0 := C.Or(C.Const(0xE0, 8), C.Extract(C.LShr(r, k(12)), 7, 0))
		b1 := C.Or(C.Const(0x80, 8), C.And(C.Extract(C.LShr(r, k(6)), 7, 0), C.Const(0x3F, 8)))
		b2 := C.Or(C.Const(0x80, 8), C.And(C.Extract(r, 7, 0), C.Const(0x3F, 8)))
		return Str{[]*T{b0, b1, b2}}
	}
	b0 := C.Or(C.Const(0xF0, 8), C.Extract(C.LShr(r, k(18)), 7, 0))
	b1 := C.Or(C.Const(0x80, 8), C.And(C.Extract(C.LShr(r, k(12)), 7, 0), C.Const(0x3F, 8)))
	b2 := C.Or(C.Const(0x80, 8), C.And(C.Extract(C.LShr(r, k(6)), 7, 0), C.Const(0x3F, 8)))
	b3 := C.Or(C.Const(0x80, 8), C.And(C.Extract(r, 7, 0), C.Const(0x3F, 8)))
	return Str{[]*T{b0, b1, b2, b3}}
}

func (fr *frame) lookup(ins *ssa.Lookup) Value {
	ex := fr.ex
	x := fr.get(ins.X)
	site := ex.site(ins.Pos(), fr.fn)
	switch xv := x.(type) {
	case Str:
		idx := ex.toIndex(fr.term(ins.Index), ins.Index.Type())
		ex.safe(ex.C.Ult(idx, ex.k64(int64(len(xv.B)))), "index out of range (string)", site)
		vs := make([]Value, len(xv.B))
		for i, b := range xv.B {
			vs[i] = b
		}
		return ex.selectValues(vs, idx)
	case *MapV:
		v, ok := ex.mapLookup(xv, fr.get(ins.Index), ins.X.Type())
		if ins.CommaOk {
			return Tuple{v, ok}
		}
		return v
	}
	panic(unsupported(fmt.Sprintf("Lookup in %T", x)))
}

func (fr *frame) next(ins *ssa.Next) Value {
	ex := fr.ex
	it := fr.get(ins.Iter).(Opaque)
	if it.Kind != "strIter" {
		panic(unsupported("Next on " + it.Kind))
	}
	s := it.Data["s"].(Str)
	pp := it.Data["pos"].(Ptr)
	pos := int(ex.loadCell(pp.Cell).(*T).Val)
	if pos >= len(s.B) {
		return Tuple{ex.C.False, ex.k64(0), ex.C.Const(0, 32)}
	}
	b0 := s.B[pos]
	// ASCII fast path; otherwise decode concretely if constant, else fork on b0 < 0x80
	if v, ok := constOf(b0); ok && v >= 0x80 {
		cs := make([]byte, 0, 4)
		for i := pos; i < len(s.B) && i < pos+4; i++ {
			cv, ok := constOf(s.B[i])
			if !ok {
				panic(unsupported("range over string with symbolic multi-byte sequence"))
			}
			cs = append(cs, byte(cv))
		}
		r, size := utf8.DecodeRune(cs)
		ex.storeCell(pp.Cell, ex.k64(int64(pos+size)))
		return Tuple{ex.C.True, ex.k64(int64(pos)), ex.C.Const(uint64(r), 32)}
	}
	if !b0.IsConst() {
		if !ex.branch(ex.C.Ult(b0, ex.C.Const(0x80, 8))) {
			panic(unsupported("range over string with symbolic non-ASCII byte"))
		}
	}
	ex.storeCell(pp.Cell, ex.k64(int64(pos+1)))
	return Tuple{ex.C.True, ex.k64(int64(pos)), ex.C.ZExt(b0, 32)}
}

func (fr *frame) typeAssert(ins *ssa.TypeAssert) Value {
	ex := fr.ex
	x := fr.get(ins.X).(Iface)
	at := ins.AssertedType
	ok := false
	var val Value
	if x.T != nil {
		if types.IsInterface(at) {
			// interface-to-interface: does dynamic type implement it?
			if types.Implements(x.T, at.Underlying().(*types.Interface)) {
				ok = true
				val = x
			}
		} else if types.Identical(x.T, at) {
			ok = true
			val = x.V
		}
	}
	if ins.CommaOk {
		if !ok {
			if types.IsInterface(at) {
				val = Iface{}
			} else {
				val = ex.zero(at)
			}
		}
		return Tuple{val, ex.C.Bool(ok)}
	}
	if !ok {
		ex.programPanic("interface conversion: type assertion failed", ex.site(ins.Pos(), fr.fn))
	}
	return val
}

// ---------- calls ----------

func (fr *frame) callInstr(c *ssa.CallCommon, pos token.Pos) Value {
	args := make([]Value, len(c.Args))
	for i, a := range c.Args {
		args[i] = fr.get(a)
	}
	var fv Value
	if c.Method == nil {
		if _, isB := c.Value.(*ssa.Builtin); !isB {
			if _, isF := c.Value.(*ssa.Function); !isF {
				fv = fr.get(c.Value)
			}
		}
	}
	return fr.invoke(c, fv, args, pos)
}

func (fr *frame) invoke(c *ssa.CallCommon, fv Value, args []Value, pos token.Pos) Value {
	ex := fr.ex
	site := ex.site(pos, fr.fn)
	if c.Method != nil {
		recv := fr.get(c.Value).(Iface)
		if recv.T == nil {
			ex.programPanic("nil interface method call "+c.Method.Name(), site)
		}
		if in, ok := ifaceIntrinsic(recv, c.Method.Name()); ok {
			return in(ex, recv, args, site)
		}
		fn := ex.Prog.LookupMethod(recv.T, c.Method.Pkg(), c.Method.Name())
		if fn == nil {
			panic(unsupported("method " + c.Method.Name() + " not found on " + recv.T.String()))
		}
		return ex.call(fn, append([]Value{recv.V}, args...), site)
	}
	switch v := c.Value.(type) {
	case *ssa.Builtin:
		return fr.builtin(v, c, args, site)
	case *ssa.Function:
		return ex.call(v, args, site)
	}
	f, ok := fv.(Func)
	if !ok {
		panic(unsupported(fmt.Sprintf("call of %T", fv)))
	}
	return ex.callClosure(f, args, site)
}

func (fr *frame) builtin(b *ssa.Builtin, c *ssa.CallCommon, args []Value, site string) Value {
	ex := fr.ex
	C := ex.C
	switch b.Name() {
	case "len":
		switch v := args[0].(type) {
		case Slice:
			return v.Len
		case Str:
			return ex.k64(int64(len(v.B)))
		case Array:
			return ex.k64(int64(len(v.E)))
		case *MapV:
			if v.Nil {
				return ex.k64(0)
			}
			if st := v.St.V.(MapState); st.Count != nil {
				return st.Count
			}
			panic(unsupported("len of map with untracked size"))
		case Ptr:
			return ex.arrLen(v.Cell)
		}
	case "cap":
		switch v := args[0].(type) {
		case Slice:
			return v.Cap
		case Array:
			return ex.k64(int64(len(v.E)))
		case Ptr:
			return ex.arrLen(v.Cell)
		}
	case "append":
		s := args[0].(Slice)
		switch t := args[1].(type) {
		case Slice:
			return ex.appendSlice(s, t, c.Args[0].Type(), site)
		case Str:
			o := ex.newArrayObj(types.Typ[types.Uint8], len(t.B), "append-string")
			for i, bb := range t.B {
				o.Root.Kids[i].V = bb
			}
			n := ex.k64(int64(len(t.B)))
			return ex.appendSlice(s, Slice{Arr: o.Root, Off: ex.k64(0), Len: n, Cap: n}, c.Args[0].Type(), site)
		}
	case "copy":
		d := args[0].(Slice)
		switch s := args[1].(type) {
		case Slice:
			return ex.copySlice(d, s, site)
		case Str:
			o := ex.newArrayObj(types.Typ[types.Uint8], len(s.B), "copy-string")
			for i, bb := range s.B {
				o.Root.Kids[i].V = bb
			}
			n := ex.k64(int64(len(s.B)))
			return ex.copySlice(d, Slice{Arr: o.Root, Off: ex.k64(0), Len: n, Cap: n}, site)
		}
	case "delete":
		ex.mapDelete(args[0].(*MapV), args[1])
		return Tuple{}
	case "print", "println":
		return Tuple{}
	case "min", "max":
		r := args[0].(*T)
		signed := isSigned(c.Args[0].Type())
		for _, a := range args[1:] {
			t := a.(*T)
			var lt *T
			if signed {
				lt = C.Slt(t, r)
			} else {
				lt = C.Ult(t, r)
			}
			if b.Name() == "max" {
				gt := C.BNot(C.BOr(lt, C.Eq(t, r)))
				r = C.Ite(gt, t, r)
				continue
			}
			r = C.Ite(lt, t, r)
		}
		return r
	case "ssa:wrapnilchk":
		p := args[0].(Ptr)
		if p.IsNil() {
			ex.programPanic("nil pointer dereference (wrapnilchk)", site)
		}
		return p
	case "clear":
		panic(unsupported("clear"))
	}
	panic(unsupported(fmt.Sprintf("builtin %s on %T", b.Name(), args[0])))
}

var _ = smt.Unsat

// onlyLogged: the call is a pure string formatter whose result is used only as an argument of logging calls.
func onlyLogged(call *ssa.Call, callee *ssa.Function) bool {
	switch callee.String() {
	case "strconv.Itoa", "strconv.FormatInt", "strconv.FormatUint", "encoding/hex.EncodeToString", "fmt.Sprintf", "fmt.Sprint":
	default:
		return false
	}
	refs := call.Referrers()
	if refs == nil || len(*refs) == 0 {
		return false
	}
	for _, r := range *refs {
		mi, ok := r.(*ssa.MakeInterface)
		if !ok {
			return false
		}
		mrefs := mi.Referrers()
		if mrefs == nil || len(*mrefs) == 0 {
			return false
		}
		for _, mr := range *mrefs {
			st, ok := mr.(*ssa.Store)
			if !ok || st.Val != mi {
				return false
			}
			ia, ok := st.Addr.(*ssa.IndexAddr)
			if !ok {
				return false
			}
			al, ok := ia.X.(*ssa.Alloc)
			if !ok {
				return false
			}
			for _, ar := range *al.Referrers() {
				switch x := ar.(type) {
				case *ssa.IndexAddr:
				case *ssa.Slice:
					for _, sr := range *x.Referrers() {
						c, ok := sr.(*ssa.Call)
						if !ok {
							return false
						}
						f := c.Call.StaticCallee()
						if f == nil || !isLogFunc(f.String()) {
							return false
						}
					}
				default:
					return false
				}
			}
		}
	}
	return true
}

func isLogFunc(name string) bool {
	return len(name) > 0 && (hasPrefix(name, "(*github.com/sirupsen/logrus.") || hasPrefix(name, "log.Print") || hasPrefix(name, "github.com/sirupsen/logrus."))
}

func hasPrefix(s, p string) bool { return len(s) >= len(p) && s[:len(p)] == p }
