// Package sym: a symbolic executor for Go SSA (golang.org/x/tools/go/ssa) producing SMT queries.
package sym

import (
	"fmt"
	"go/types"

	"golang.org/x/tools/go/ssa"

	"verif/engine/smt"
)

type T = smt.Term

// Value is one of: *T (bool / integer scalar), Ptr, Slice, Str, Iface, Struct, Array, Tuple, Func, *MapV, Opaque.
type Value interface{}

// Ptr: pointer to a cell, or to element Idx (symbolic) of an array cell. Zero value is the nil pointer.
type Ptr struct {
	Cell *Cell
	Arr  *Cell
	Idx  *T
}

func (p Ptr) IsNil() bool { return p.Cell == nil && p.Arr == nil }

// Slice: view [Off, Off+Len) of array cell Arr, capacity Cap (all terms of width 64). Arr == nil is the nil slice.
type Slice struct {
	Arr           *Cell
	Off, Len, Cap *T
}

// Str: immutable byte string of concrete length with (possibly symbolic) bytes.
type Str struct {
	B []*T
}

// Iface: interface value with concrete dynamic type. T == nil is the nil interface.
type Iface struct {
	T types.Type
	V Value
}

type Struct struct{ F []Value }
type Array struct{ E []Value }
type Tuple []Value

type Func struct {
	Fn   *ssa.Function
	Bind []Value
	// builtin or intrinsic-by-name
	Builtin *ssa.Builtin
}

// MapV: Go map; its contents live in a state cell (MapState) so that updates are journaled. Nil is the nil map.
type MapV struct {
	Nil  bool
	KeyW int
	St   *Cell
	Elem types.Type
}

// Opaque: values the engine carries around without looking inside (errors, loggers, time values, ...).
type Opaque struct {
	Kind string
	Msg  string
	Data map[string]Value
	ID   int
}

// Cell is a node of an object's storage tree.
type Cell struct {
	Obj  *Obj
	T    types.Type
	V    Value   // leaf value (nil for aggregate)
	Kids []*Cell // struct fields / array elements
	Lazy *LazyArr
	Agg  bool
}

// LazyArr: array storage of symbolic length whose cells come into existence on first access.
type LazyArr struct {
	Len   *T                     // width 64
	Gen   func(idx *T) Value      // initial content at index idx (may be symbolic)
	Mat   map[uint64]*Cell        // materialised cells
	Elem  types.Type
	Dirty bool // some cell has been written
	tail  *lazyTail
}

// lazyTail: the most recent run of small concrete-length writes at consecutive offsets [off, off+len(vals)) on top of
// base. Consecutive writes (a serializer appending octet after octet behind a symbolic-length chunk) extend the run
// instead of nesting one generator per write, so a read at a symbolic position is one flat table, not a deep chain.
type lazyTail struct {
	base func(idx *T) Value
	off  *T
	vals []Value
}

type Obj struct {
	ID    int
	Root  *Cell
	Site  string
	Input bool // harness-provided input buffer
	Epoch int  // allocation serial in this run
	Size  *T   // bytes allocated (for ghost accounting), may be nil
}

func (ex *Exec) widthOf(t types.Type) int {
	switch u := t.Underlying().(type) {
	case *types.Basic:
		switch u.Kind() {
		case types.Bool, types.UntypedBool:
			return 0
		case types.Int8, types.Uint8:
			return 8
		case types.Int16, types.Uint16:
			return 16
		case types.Int32, types.Uint32, types.UntypedRune:
			return 32
		case types.Int, types.Uint, types.Int64, types.Uint64, types.Uintptr, types.UntypedInt:
			return 64
		}
	}
	return -1
}

func isSigned(t types.Type) bool {
	if b, ok := t.Underlying().(*types.Basic); ok {
		return b.Info()&types.IsUnsigned == 0 && b.Info()&types.IsInteger != 0
	}
	return false
}

func isString(t types.Type) bool {
	b, ok := t.Underlying().(*types.Basic)
	return ok && b.Info()&types.IsString != 0
}

func (ex *Exec) zero(t types.Type) Value {
	switch u := t.Underlying().(type) {
	case *types.Basic:
		if u.Info()&types.IsString != 0 {
			return Str{}
		}
		if u.Kind() == types.UnsafePointer {
			return Ptr{}
		}
		w := ex.widthOf(t)
		if w == 0 {
			return ex.C.False
		}
		if w > 0 {
			return ex.C.Const(0, w)
		}
		if u.Info()&types.IsFloat != 0 {
			return Opaque{Kind: "float"}
		}
		panic(unsupported("zero of basic " + u.String()))
	case *types.Pointer:
		return Ptr{}
	case *types.Slice:
		return Slice{Off: ex.k64(0), Len: ex.k64(0), Cap: ex.k64(0)}
	case *types.Interface:
		return Iface{}
	case *types.Map:
		return &MapV{Nil: true}
	case *types.Signature:
		return Func{}
	case *types.Chan:
		return Opaque{Kind: "chan"}
	case *types.Struct:
		f := make([]Value, u.NumFields())
		for i := range f {
			f[i] = ex.zero(u.Field(i).Type())
		}
		return Struct{f}
	case *types.Array:
		e := make([]Value, u.Len())
		for i := range e {
			e[i] = ex.zero(u.Elem())
		}
		return Array{e}
	case *types.Tuple:
		tu := make(Tuple, u.Len())
		for i := range tu {
			tu[i] = ex.zero(u.At(i).Type())
		}
		return tu
	}
	panic(unsupported("zero of " + t.String()))
}

func (ex *Exec) k64(v int64) *T { return ex.C.Const(uint64(v), 64) }

func constOf(t *T) (uint64, bool) {
	if t != nil && t.IsConst() {
		return t.Val, true
	}
	return 0, false
}

// newCell builds zero-initialised storage for type t.
func (ex *Exec) newCell(o *Obj, t types.Type) *Cell {
	c := &Cell{Obj: o, T: t}
	switch u := t.Underlying().(type) {
	case *types.Struct:
		c.Agg = true
		c.Kids = make([]*Cell, u.NumFields())
		for i := range c.Kids {
			c.Kids[i] = ex.newCell(o, u.Field(i).Type())
		}
	case *types.Array:
		c.Agg = true
		n := int(u.Len())
		if n > 1<<16+16 {
			panic(unsupported(fmt.Sprintf("array of %d elements", n)))
		}
		c.Kids = make([]*Cell, n)
		// leaf arrays of scalars: share a zero term
		for i := range c.Kids {
			c.Kids[i] = ex.newCell(o, u.Elem())
		}
	default:
		c.V = ex.zero(t)
	}
	return c
}

func (ex *Exec) newObj(t types.Type, site string) *Obj {
	ex.nobj++
	o := &Obj{ID: ex.nobj, Site: site, Epoch: ex.nobj}
	o.Root = ex.newCell(o, t)
	return o
}

// newArrayObj allocates an array object of n elements of type elem with concrete length.
func (ex *Exec) newArrayObj(elem types.Type, n int, site string) *Obj {
	return ex.newObj(types.NewArray(elem, int64(n)), site)
}

// newLazyArrayObj allocates an array object with symbolic length.
func (ex *Exec) newLazyArrayObj(elem types.Type, n *T, gen func(idx *T) Value, site string) *Obj {
	ex.nobj++
	o := &Obj{ID: ex.nobj, Site: site, Epoch: ex.nobj}
	c := &Cell{Obj: o, T: types.NewSlice(elem), Agg: true}
	c.Lazy = &LazyArr{Len: n, Gen: gen, Mat: map[uint64]*Cell{}, Elem: elem}
	o.Root = c
	return o
}

// arrLen returns the number of elements of an array cell as a term.
func (ex *Exec) arrLen(c *Cell) *T {
	if c.Lazy != nil {
		return c.Lazy.Len
	}
	return ex.k64(int64(len(c.Kids)))
}

func (ex *Exec) elemType(c *Cell) types.Type {
	if c.Lazy != nil {
		return c.Lazy.Elem
	}
	if a, ok := c.T.Underlying().(*types.Array); ok {
		return a.Elem()
	}
	panic(unsupported("elemType of non-array cell " + c.T.String()))
}

// kid returns the cell of element i (concrete) of an array cell; nil if out of range for concrete arrays.
func (ex *Exec) kid(c *Cell, i uint64) *Cell {
	if c.Lazy != nil {
		if k, ok := c.Lazy.Mat[i]; ok {
			return k
		}
		k := &Cell{Obj: c.Obj, T: c.Lazy.Elem}
		k.V = c.Lazy.Gen(ex.k64(int64(i)))
		c.Lazy.Mat[i] = k
		return k
	}
	if i >= uint64(len(c.Kids)) {
		return nil
	}
	return c.Kids[i]
}

// ---- loads and stores ----

func (ex *Exec) loadCell(c *Cell) Value {
	if !c.Agg {
		return c.V
	}
	if c.Lazy != nil {
		panic(unsupported("load of whole lazy array"))
	}
	switch c.T.Underlying().(type) {
	case *types.Struct:
		f := make([]Value, len(c.Kids))
		for i, k := range c.Kids {
			f[i] = ex.loadCell(k)
		}
		return Struct{f}
	case *types.Array:
		e := make([]Value, len(c.Kids))
		for i, k := range c.Kids {
			e[i] = ex.loadCell(k)
		}
		return Array{e}
	}
	panic(unsupported("load of aggregate " + c.T.String()))
}

func (ex *Exec) storeCell(c *Cell, v Value) {
	if !c.Agg {
		ex.writeLeaf(c, v)
		return
	}
	switch vv := v.(type) {
	case Struct:
		for i, k := range c.Kids {
			ex.storeCell(k, vv.F[i])
		}
	case Array:
		for i, k := range c.Kids {
			ex.storeCell(k, vv.E[i])
		}
	default:
		panic(unsupported(fmt.Sprintf("store of %T into aggregate %s", v, c.T)))
	}
}

type undoRec struct {
	c   *Cell
	old Value
}

func (ex *Exec) writeLeaf(c *Cell, v Value) {
	if ex.logging > 0 {
		ex.undo = append(ex.undo, undoRec{c, c.V})
	}
	if ex.onWrite != nil {
		ex.onWrite(c)
	}
	c.V = v
}

// load through a pointer value (handles symbolic element pointers).
func (ex *Exec) load(p Ptr, site string) Value {
	if p.IsNil() {
		ex.programPanic("nil pointer dereference", site)
	}
	if p.Cell != nil {
		return ex.loadCell(p.Cell)
	}
	return ex.loadIndexed(p.Arr, p.Idx, site)
}

func (ex *Exec) store(p Ptr, v Value, site string) {
	if p.IsNil() {
		ex.programPanic("nil pointer dereference", site)
	}
	if p.Cell != nil {
		ex.storeCell(p.Cell, v)
		return
	}
	ex.storeIndexed(p.Arr, p.Idx, v, site)
}

const maxIteChain = 600

// loadIndexed reads element idx (symbolic, already bounds-checked) of array cell arr.
func (ex *Exec) loadIndexed(arr *Cell, idx *T, site string) Value {
	if k, ok := constOf(idx); ok {
		c := ex.kid(arr, k)
		if c == nil {
			if ex.mergeDepth > 0 {
				panic(mergeFail{"element beyond backing array in speculative arm"})
			}
			if ex.sat() == smt.Unsat {
				panic(pathEnd{"infeasible"})
			}
			ex.programPanic("index out of range (internal)", site)
		}
		return ex.loadCell(c)
	}
	if arr.Lazy != nil {
		v := arr.Lazy.Gen(idx)
		if arr.Lazy.Dirty {
			for k, c := range arr.Lazy.Mat {
				v = ex.iteValue(ex.C.Eq(idx, ex.k64(int64(k))), ex.loadCell(c), v)
			}
		}
		return v
	}
	n := len(arr.Kids)
	if n == 0 {
		ex.programPanic("index out of range (empty)", site)
	}
	if n > maxIteChain {
		// concretise the index
		k := ex.concretize(idx, "index@"+site, 4096)
		return ex.loadCell(arr.Kids[k])
	}
	if tv, ok := ex.tableLookup(arr, idx); ok {
		return tv
	}
	if v, ok := ex.tryIte(func() Value {
		v := ex.loadCell(arr.Kids[n-1])
		for i := n - 2; i >= 0; i-- {
			v = ex.iteValue(ex.C.Eq(idx, ex.k64(int64(i))), ex.loadCell(arr.Kids[i]), v)
		}
		return v
	}); ok {
		return v
	}
	k := ex.concretize(idx, "index@"+site, 4096)
	return ex.loadCell(arr.Kids[k])
}

// tryIte runs f, which builds an ite over values; if the values cannot be merged (pointers, strings of different
// length, ...) it reports failure so that the caller can case-split instead. Inside a merge arm the failure propagates.
func (ex *Exec) tryIte(f func() Value) (v Value, ok bool) {
	if ex.mergeDepth > 0 {
		return f(), true
	}
	defer func() {
		if r := recover(); r != nil {
			if _, isMF := r.(mergeFail); isMF {
				v, ok = nil, false
				return
			}
			panic(r)
		}
	}()
	return f(), true
}

func (ex *Exec) storeIndexed(arr *Cell, idx *T, v Value, site string) {
	if k, ok := constOf(idx); ok {
		c := ex.kid(arr, k)
		if c == nil {
			ex.programPanic("index out of range (internal)", site)
		}
		if arr.Lazy != nil {
			arr.Lazy.Dirty = true
		}
		ex.storeCell(c, v)
		return
	}
	if arr.Lazy != nil || len(arr.Kids) > maxIteChain {
		var k uint64
		if arr.Lazy != nil {
			k = ex.concretize(idx, "index@"+site, 4096)
			arr.Lazy.Dirty = true
		} else {
			k = ex.concretize(idx, "index@"+site, 4096)
		}
		ex.storeCell(ex.kid(arr, k), v)
		return
	}
	news := make([]Value, len(arr.Kids))
	if _, ok := ex.tryIte(func() Value {
		for i, c := range arr.Kids {
			news[i] = ex.iteValue(ex.C.Eq(idx, ex.k64(int64(i))), v, ex.loadCell(c))
		}
		return nil
	}); ok {
		for i, c := range arr.Kids {
			ex.storeCell(c, news[i])
		}
		return
	}
	k := ex.concretize(idx, "index@"+site, 4096)
	ex.storeCell(arr.Kids[k], v)
}

// iteValue builds ite(c, a, b) over values; aborts the merge / reports unsupported if not possible.
func (ex *Exec) iteValue(c *T, a, b Value) Value {
	if c.IsConst() {
		if c.Val != 0 {
			return a
		}
		return b
	}
	switch av := a.(type) {
	case *T:
		bv, ok := b.(*T)
		if !ok || av.S != bv.S {
			panic(mergeFail{"ite of mismatched scalars"})
		}
		return ex.C.Ite(c, av, bv)
	case Struct:
		bv, ok := b.(Struct)
		if !ok || len(av.F) != len(bv.F) {
			panic(mergeFail{"ite struct mismatch"})
		}
		f := make([]Value, len(av.F))
		for i := range f {
			f[i] = ex.iteValue(c, av.F[i], bv.F[i])
		}
		return Struct{f}
	case Array:
		bv, ok := b.(Array)
		if !ok || len(av.E) != len(bv.E) {
			panic(mergeFail{"ite array mismatch"})
		}
		e := make([]Value, len(av.E))
		for i := range e {
			e[i] = ex.iteValue(c, av.E[i], bv.E[i])
		}
		return Array{e}
	case Tuple:
		bv, ok := b.(Tuple)
		if !ok || len(av) != len(bv) {
			panic(mergeFail{"ite tuple mismatch"})
		}
		e := make(Tuple, len(av))
		for i := range e {
			e[i] = ex.iteValue(c, av[i], bv[i])
		}
		return e
	case Str:
		bv, ok := b.(Str)
		if !ok || len(av.B) != len(bv.B) {
			panic(mergeFail{"ite of strings of different length"})
		}
		r := make([]*T, len(av.B))
		for i := range r {
			r[i] = ex.C.Ite(c, av.B[i], bv.B[i])
		}
		return Str{r}
	case Ptr:
		if bv, ok := b.(Ptr); ok && av == bv {
			return a
		}
	case Slice:
		if bv, ok := b.(Slice); ok && av.Arr == bv.Arr {
			return Slice{Arr: av.Arr, Off: ex.C.Ite(c, av.Off, bv.Off), Len: ex.C.Ite(c, av.Len, bv.Len), Cap: ex.C.Ite(c, av.Cap, bv.Cap)}
		}
	case Iface:
		if bv, ok := b.(Iface); ok {
			if av.T == nil && bv.T == nil {
				return a
			}
			if av.T != nil && bv.T != nil && types.Identical(av.T, bv.T) {
				return Iface{T: av.T, V: ex.iteValue(c, av.V, bv.V)}
			}
		}
	case *MapV:
		if bv, ok := b.(*MapV); ok {
			if av == bv || (av.Nil && bv.Nil) {
				return a
			}
		}
	case MapState:
		if bv, ok := b.(MapState); ok {
			return ex.mergeMapStates(c, av, bv)
		}
	case Func:
		if bv, ok := b.(Func); ok && av.Fn == bv.Fn && len(av.Bind) == 0 && len(bv.Bind) == 0 && av.Builtin == bv.Builtin {
			return a
		}
	case Opaque:
		if bv, ok := b.(Opaque); ok && av.ID == bv.ID && av.Kind == bv.Kind {
			return a
		}
	case nil:
		if b == nil {
			return nil
		}
	}
	panic(mergeFail{fmt.Sprintf("ite of %T and %T", a, b)})
}

// sameValue reports syntactic identity of two values (used to skip trivial merges).
func sameValue(a, b Value) bool {
	switch av := a.(type) {
	case *T:
		bv, ok := b.(*T)
		return ok && av == bv
	case Ptr:
		bv, ok := b.(Ptr)
		return ok && av == bv
	case Slice:
		bv, ok := b.(Slice)
		return ok && av == bv
	case Str:
		bv, ok := b.(Str)
		if !ok || len(av.B) != len(bv.B) {
			return false
		}
		for i := range av.B {
			if av.B[i] != bv.B[i] {
				return false
			}
		}
		return true
	case Iface:
		bv, ok := b.(Iface)
		if !ok {
			return false
		}
		if av.T == nil || bv.T == nil {
			return av.T == nil && bv.T == nil
		}
		return types.Identical(av.T, bv.T) && sameValue(av.V, bv.V)
	case Struct:
		bv, ok := b.(Struct)
		if !ok || len(av.F) != len(bv.F) {
			return false
		}
		for i := range av.F {
			if !sameValue(av.F[i], bv.F[i]) {
				return false
			}
		}
		return true
	case Array:
		bv, ok := b.(Array)
		if !ok || len(av.E) != len(bv.E) {
			return false
		}
		for i := range av.E {
			if !sameValue(av.E[i], bv.E[i]) {
				return false
			}
		}
		return true
	case Tuple:
		bv, ok := b.(Tuple)
		if !ok || len(av) != len(bv) {
			return false
		}
		for i := range av {
			if !sameValue(av[i], bv[i]) {
				return false
			}
		}
		return true
	case *MapV:
		bv, ok := b.(*MapV)
		return ok && (av == bv || (av.Nil && bv.Nil))
	case MapState:
		bv, ok := b.(MapState)
		if !ok || len(av.E) != len(bv.E) || av.Count != bv.Count {
			return false
		}
		for i := range av.E {
			if av.E[i].Guard != bv.E[i].Guard || !sameMapKey(av.E[i], bv.E[i]) || av.E[i].Pres != bv.E[i].Pres || !sameValue(av.E[i].Val, bv.E[i].Val) {
				return false
			}
		}
		return true
	case Func:
		bv, ok := b.(Func)
		return ok && av.Fn == bv.Fn && av.Builtin == bv.Builtin && len(av.Bind) == 0 && len(bv.Bind) == 0
	case Opaque:
		bv, ok := b.(Opaque)
		return ok && av.ID == bv.ID && av.Kind == bv.Kind
	case nil:
		return b == nil
	}
	return false
}

type unsupportedErr struct{ msg string }

func unsupported(msg string) unsupportedErr { return unsupportedErr{msg} }

type mergeFail struct{ why string }
